package blockchain

import (
	"testing"
	"time"

	"github.com/btcsuite/btcd/blockchain/internal/testhelper"
	"github.com/btcsuite/btcd/btcutil/v2"
	"github.com/btcsuite/btcd/chaincfg/v2"
	"github.com/btcsuite/btcd/wire/v2"
)

// vDemoBlock builds and solves a coinbase-only block on top of prev.  The
// extraNonce makes sibling blocks distinct and extraSubsidy (when non-zero)
// makes the coinbase pay too much so the block fails checkConnectBlock with
// ErrBadCoinbaseValue (it still passes every context-free / contextual check,
// so it is stored and indexed like any other side-chain block).
func vDemoBlock(t *testing.T, chain *BlockChain, prev *btcutil.Block,
	extraNonce uint64, extraSubsidy int64) *btcutil.Block {

	t.Helper()

	height := prev.Height() + 1
	script, err := testhelper.StandardCoinbaseScript(height, extraNonce)
	if err != nil {
		t.Fatal(err)
	}
	cb := testhelper.CreateCoinbaseTx(
		height, CalcBlockSubsidy(height, chain.chainParams)+extraSubsidy,
	)
	cb.TxIn[0].SignatureScript = script
	txns := []*wire.MsgTx{cb}

	block := btcutil.NewBlock(&wire.MsgBlock{
		Header: wire.BlockHeader{
			Version:    4,
			PrevBlock:  *prev.Hash(),
			MerkleRoot: calcMerkleRoot(txns),
			Bits:       chain.chainParams.PowLimitBits,
			Timestamp:  prev.MsgBlock().Header.Timestamp.Add(time.Second),
		},
		Transactions: txns,
	})
	block.SetHeight(height)
	if !testhelper.SolveBlock(&block.MsgBlock().Header) {
		t.Fatalf("unable to solve block at height %d", height)
	}
	return block
}


// Children delivered before their parent: an INVALID orphan must not prevent its valid sibling from being connected
// once the common parent arrives.
//
//	genesis -> p -> s1bad   (coinbase pays too much; delivered first, as an orphan)
//	            \-> s2good  (valid; delivered second, as an orphan)
func TestDemoInvalidOrphanHidesValidSibling(t *testing.T) {
	chain, teardown, err := chainSetup("demoorphansibling", &chaincfg.RegressionNetParams)
	if err != nil {
		t.Fatal(err)
	}
	defer teardown()
	genesis := btcutil.NewBlock(chain.chainParams.GenesisBlock)
	genesis.SetHeight(0)
	p := vDemoBlock(t, chain, genesis, 1, 0)
	s1bad := vDemoBlock(t, chain, p, 2, 1)
	s2good := vDemoBlock(t, chain, p, 3, 0)
	for name, blk := range map[string]*btcutil.Block{"s1bad": s1bad} {
		_, isOrphan, err := chain.ProcessBlock(blk, BFNone)
		if err != nil || !isOrphan {
			t.Fatalf("%s: want orphan, got orphan=%v err=%v", name, isOrphan, err)
		}
	}
	if _, isOrphan, err := chain.ProcessBlock(s2good, BFNone); err != nil || !isOrphan {
		t.Fatalf("s2good: want orphan, got orphan=%v err=%v", isOrphan, err)
	}
	_, _, perr := chain.ProcessBlock(p, BFNone)
	t.Logf("ProcessBlock(p) returned err=%v", perr)
	best := chain.BestSnapshot()
	if chain.IsKnownOrphan(s2good.Hash()) {
		t.Errorf("s2good is still an orphan although its parent p has been accepted")
	}
	if best.Hash != *s2good.Hash() {
		t.Errorf("tip is %v (height %d), want s2good %v (height 2): the most-work valid chain of the delivered blocks",
			best.Hash, best.Height, s2good.Hash())
	}
}
