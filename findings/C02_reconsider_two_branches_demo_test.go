package blockchain

import (
	"fmt"
	"testing"

	"github.com/btcsuite/btcd/blockchain/internal/testhelper"
	"github.com/btcsuite/btcd/btcutil/v2"
	"github.com/btcsuite/btcd/chainhash/v2"
)

// Reconsidering a block with two descendant branches must end on the most-work one.
func TestDemoReconsiderTwoBranches(t *testing.T) {
	bad := 0
	const rounds = 12
	for r := 0; r < rounds; r++ {
		chain, params, tearDown := utxoCacheTestChain(fmt.Sprintf("TestDemoReconsiderTwoBranches-%d", r))
		tip := btcutil.NewBlock(params.GenesisBlock)
		tip.SetHeight(0)
		// main chain: 10 blocks
		_, outs, err := addBlocks(10, chain, tip, []*testhelper.SpendableOut{})
		if err != nil {
			t.Fatal(err)
		}
		b1, _ := chain.BlockByHeight(1)
		// side: S2 on block 1
		s2, s2Outs, err := addBlock(chain, b1, outs[0])
		if err != nil {
			t.Fatal(err)
		}
		sHashes := []*chainhash.Hash{s2.Hash()}
		sOuts := [][]*testhelper.SpendableOut{s2Outs}
		// branch A: 6 blocks on S2 (height 8), branch B: 1 block on S2 (height 3)
		aHashes, _, err := addBlocks(6, chain, s2, sOuts[0])
		if err != nil {
			t.Fatal(err)
		}
		if _, _, err = addBlocks(1, chain, s2, []*testhelper.SpendableOut{}); err != nil {
			t.Fatal(err)
		}
		if err := chain.InvalidateBlock(sHashes[0]); err != nil {
			t.Fatal(err)
		}
		m5, _ := chain.BlockByHeight(5)
		if err := chain.InvalidateBlock(m5.Hash()); err != nil {
			t.Fatal(err)
		}
		if h := chain.BestSnapshot().Height; h != 4 {
			t.Fatalf("after invalidation want height 4 got %d", h)
		}
		if err := chain.ReconsiderBlock(sHashes[0]); err != nil {
			t.Fatal(err)
		}
		best := chain.BestSnapshot()
		if best.Hash != *aHashes[5] {
			bad++
			t.Logf("round %d: tip after reconsider is height %d (%v), want branch A tip height 8", r, best.Height, best.Hash)
		}
		tearDown()
	}
	if bad > 0 {
		t.Fatalf("%d of %d rounds did not end on the most-work reconsidered branch", bad, rounds)
	}
}
