#!/usr/bin/env python3-vt
"""dbg.py <ir.json> <root> [seed]  - concrete (pinned) interpretation of one harness with exceptions shown"""
import sys, json, traceback
sys.path.insert(0, '/verif/engine/symex')
import driver, core, intrinsics, intrinsics2
from values import *
ir = json.load(open(sys.argv[1])); root = sys.argv[2]; seed = int(sys.argv[3]) if len(sys.argv) > 3 and sys.argv[3].isdigit() else 0
tab = dict((kv.split('=')[0], int(kv.split('=')[1])) for kv in sys.argv[3].split(',')) if len(sys.argv) > 3 and '=' in sys.argv[3] else None
fq = [r for r in ir['roots'] if r.endswith('.' + root)][0]
ex = driver.make_exec(ir, {}, 0)
ex.build_base()
print('init notes:', ex.init_notes[:5])
class P(dict):
    def get(self, key, default=0):
        return driver.vprng(seed, key)
ex.pinned = P(); ex.pinned_prng = True; ex.trace = []
if tab is not None:
    ex.pinned = tab; ex.pinned_prng = False
try:
    print(ex.run_path(ex.funcs[fq], []))
except Exception:
    traceback.print_exc()
print(ex.trace[-10:])
print([r for r in ex.results][:3])
