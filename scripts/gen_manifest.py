#!/usr/bin/env python3
"""Regenerates MANIFEST.json from scripts/claims.json (per-property texts) and properties.jsonl."""
import json, os
V = os.path.dirname(os.path.dirname(os.path.abspath(__file__)))
props = [json.loads(l) for l in open(os.path.join(V, 'properties.jsonl'))]
claims = json.load(open(os.path.join(V, 'scripts', 'claims.json')))
checks = []
na = []
for p in props:
    pid = p['id']
    c = claims.get(pid)
    if c and c.get('claimed') and os.path.isdir(os.path.join(V, 'harness', pid)):
        checks.append({
            'property_id': pid,
            'quick_cmd': './check %s --tier quick' % pid,
            'thorough_cmd': './check %s --tier thorough' % pid,
            'evidence_file': 'evidence/%s.json' % pid,
            'replay_cmd_template': './check %s --replay {path}' % pid,
            'engine': 'symex',
            'level_claimed': {'category': 'model_checking', 'text': c['text'], 'design_ref': c.get('design_ref', 'DESIGN.md section 4 ' + pid)},
            'level_note': c['note'],
            'technique': c.get('technique', 'bounded symbolic execution of the go/ssa of the real functions; every obligation decided by z3 (SMT, bit-vectors / integers / uninterpreted hash functions); SAT models replayed natively'),
        })
    else:
        na.append({'property_id': pid, 'reason': (c or {}).get('na_reason', 'check not yet built')})
m = {
    'version': 1,
    'setup_cmd': 'bash /verif/scripts/setup.sh',
    'hooks': {
        'guard': 'verif',
        'enable': 'none needed: harnesses are injected with go/packages overlays and `go test -overlay`; /repo is never modified by a check',
        'baseline_off_cmd': 'bash /verif/scripts/baseline_off.sh',
        'source_commits': [],
        'add_only': True,
    },
    'engines': [{
        'name': 'symex', 'path': 'engine/',
        'serves_properties': [c['property_id'] for c in checks],
        'kind_free_text': 'go/ssa exporter (engine/ssaexport, x/tools v0.29.0) + path-forking symbolic executor over the exported IR (engine/symex, Python, z3 5.1 in-process); harnesses under harness/<id>/ are ordinary in-package Go functions; SAT models are replayed natively with go test -overlay; translator validated per run by concrete differential execution against the native build; environment functions (database, network) are cut by stubs present both in the encoding and - through source rewriting inside the go test overlay, never in /repo - in the native replay; in the thorough tier sampled unsat obligations are re-decided by z3 4.8.12 and cvc5 from their SMT-LIB2 text',
    }],
    'checks': checks,
    'notes': 'See DESIGN.md. Exit 0 = every obligation discharged (unsat) within the stated bounds; exit 1 + VIOLATION = a solver model that reproduced natively against the real build; exit 3 = cannot decide (harness does not build, engine limitation, inconclusive query) - never reported as a pass. Repo fix commits: see known_findings.txt.',
    'not_applicable': na,
}
json.dump(m, open(os.path.join(V, 'MANIFEST.json'), 'w'), indent=1)
print('checks:', [c['property_id'] for c in checks], 'n/a:', [x['property_id'] for x in na])
