#!/bin/bash
# runs every claimed check's quick (or $1) tier in sequence; prints one line per property
tier=${1:-quick}
cd /verif
for p in $(python3 -c "import json; print(' '.join(c['property_id'] for c in json.load(open('MANIFEST.json'))['checks']))"); do
  s=$(date +%s)
  out=$(./check $p --tier $tier 2>&1); rc=$?
  echo "$p rc=$rc $(( $(date +%s) - s ))s :: $(echo "$out" | tail -1)"
  if [ $rc -ne 0 ]; then echo "$out" | grep -v "^KNOWN" | head -8; fi
done
