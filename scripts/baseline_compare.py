#!/usr/bin/env python3
"""run go test -json for the given module-relative package patterns and compare with BASELINE.json stable_pass.
usage: baseline_compare.py <module-dir> [pkg patterns...]"""
import json, subprocess, sys, os
mod = sys.argv[1]; pats = sys.argv[2:] or ['./...']
env = dict(os.environ, GOFLAGS='-mod=mod', GOPROXY='off', GOTOOLCHAIN='auto')
r = subprocess.run(['go', 'test', '-json', '-vet=off', '-count=1', '-timeout', '25m'] + pats, cwd=os.path.join('/repo', mod), env=env, capture_output=True, text=True)
passed = set(); failed = set(); pkgs = set()
for line in r.stdout.split('\n'):
    try: d = json.loads(line)
    except ValueError: continue
    if d.get('Test') and d.get('Action') in ('pass', 'fail'):
        (passed if d['Action'] == 'pass' else failed).add(d['Package'] + '::' + d['Test'])
    if d.get('Package'): pkgs.add(d['Package'])
base = json.load(open('/root/.vp/BASELINE.json'))
want = [t for t in base['stable_pass'] if t.split('::')[0] in pkgs]
missing = [t for t in want if t not in passed]
print('packages', len(pkgs), 'baseline tests', len(want), 'passed now', len(passed), 'missing', len(missing))
for t in missing[:40]: print('  NOT PASSING:', t)
sys.exit(1 if missing else 0)
