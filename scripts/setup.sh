#!/bin/bash
# Offline setup: build the go/ssa exporter from the module cache; byte-compile the executor.
set -e
export GOFLAGS=-mod=mod GOPROXY=off GOTOOLCHAIN=auto
unset GOSUMDB
cd /verif/engine/ssaexport && go build -o ssaexport .
python3-vt -m compileall -q /verif/engine/symex >/dev/null
python3-vt -c "import z3; print('z3', z3.get_version_string())"
echo setup ok
