#!/usr/bin/env python3
"""Regenerates the seeded-change table (DESIGN.md section 9.5, between the seeds:begin/end markers) from
seeded/*/meta.json.  With --print only prints it."""
import json, glob, os, sys
rows = []
caught = missed = 0
for d in sorted(glob.glob('/verif/seeded/*/')):
    m = json.load(open(os.path.join(d, 'meta.json')))
    cr = m.get('check_result', {})
    viol = cr.get('violations', [])
    hs = sorted({v.split('/')[-1].rsplit('-', 1)[0] for v in viol})
    what = m.get('what', '').split('. ')[0][:230].replace('|', '/').replace('\n', ' ')
    ok = bool(cr.get('caught'))
    caught += ok
    missed += (not ok)
    why = m.get('missed_reason', '')
    status = 'caught' if ok else 'missed'
    if ok and m.get('first_pass') == 'missed':
        status = 'caught after strengthening (' + m.get('strengthened_with', '') + ')'
    rows.append('| %s | %s | %s | %s |' % (os.path.basename(d.rstrip('/')), what, status,
                                         ', '.join(hs) or (why or '-')))
out = ['%d seeded changes: %d reported by the quick check of their property (each with a natively replayed '
       'counterexample), %d missed.' % (caught + missed, caught, missed), '',
       '| seed | change (first sentence of meta.json `what`) | quick check | harnesses reporting it / why missed |',
       '|---|---|---|---|'] + rows
txt = '\n'.join(out)
if '--print' in sys.argv:
    print(txt)
else:
    p = '/verif/DESIGN.md'
    s = open(p).read()
    a = s.index('<!-- seeds:begin -->') + len('<!-- seeds:begin -->')
    b = s.index('<!-- seeds:end -->')
    open(p, 'w').write(s[:a] + '\n' + txt + '\n' + s[b:])
    print('DESIGN.md 9.5 updated: %d caught, %d missed' % (caught, missed))
