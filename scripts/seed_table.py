#!/usr/bin/env python3
"""prints the markdown table of seeded changes and which check catches them (from seeded/*/meta.json)"""
import json, glob, os
rows = []
for d in sorted(glob.glob('/verif/seeded/*/')):
    m = json.load(open(os.path.join(d, 'meta.json')))
    cr = m.get('check_result', {})
    viol = cr.get('violations', [])
    hs = sorted({v.split('/')[-1].rsplit('-', 1)[0] for v in viol})
    what = m.get('what', '').split('. ')[0][:150].replace('|', '/')
    rows.append('| %s | %s | %s | %s |' % (os.path.basename(d.rstrip('/')), what, 'caught' if cr.get('caught') else 'missed', ', '.join(hs) or '-'))
print('| seed | change | quick check | harnesses reporting it |')
print('|---|---|---|---|')
print('\n'.join(rows))
