#!/bin/bash
# Runs the repository's test suite with the verif guard OFF (no build tags), one module at a time.
export GOFLAGS=-mod=mod GOPROXY=off GOTOOLCHAIN=auto
for m in . address btcec btcutil chaincfg chainhash psbt txscript v2transport wire; do
  (cd /repo/$m && go test -json -vet=off -count=1 -timeout 25m ./...)
done
