#!/usr/bin/env python3
"""seedtest.py <seed_dir> [--keep-as <id>] [--no-verify] [--check-args ...]
Confirms a seeded change (patch.diff + demo_test.go + meta.json) in a scratch worktree, then applies it to
/repo, runs the property's quick check, reverts /repo, and prints whether the check caught it."""
import json, os, shutil, subprocess, sys, time

ENV = dict(os.environ, GOFLAGS='-mod=mod', GOPROXY='off', GOTOOLCHAIN='auto')
ENV.pop('GOSUMDB', None)
ENV['VERIF_EVIDENCE_DIR'] = '/tmp/seed_evidence'   # a seeded run must not overwrite the evidence of the real tree
os.makedirs('/tmp/seed_evidence', exist_ok=True)
WT = os.environ.get('SEEDTEST_WT', '/tmp/wt_verify')


def sh(cmd, cwd=None, timeout=1500):
    r = subprocess.run(cmd, shell=True, cwd=cwd, env=ENV, capture_output=True, text=True, timeout=timeout)
    return r.returncode, (r.stdout + r.stderr)


def main():
    sd = os.path.abspath(sys.argv[1])
    args = sys.argv[2:]
    keep = args[args.index('--keep-as') + 1] if '--keep-as' in args else None
    verify = '--no-verify' not in args
    only = args[args.index('--only') + 1] if '--only' in args else None
    meta = json.load(open(os.path.join(sd, 'meta.json')))
    prop = meta['property']
    mod = meta.get('module', '.').strip('/') or '.'
    pkgdir = meta['package_dir'].strip('/')
    patch = os.path.join(sd, 'patch.diff')
    ran = []
    ok_verify = None
    if verify:
        if not os.path.isdir(WT):
            rc, out = sh('git -C /repo worktree add -q --detach %s HEAD' % WT)
            if rc:
                print(out); return 2
        sh('git checkout -q --detach %s && git checkout -- . && git clean -fdq' % subprocess.check_output(
            'git -C /repo rev-parse HEAD', shell=True, text=True).strip(), cwd=WT)
        moddir = os.path.join(WT, mod)
        rel = os.path.relpath(os.path.join(WT, pkgdir), moddir)
        demo_dst = os.path.join(WT, pkgdir, 'zz_demo_test.go')
        skip = "-skip 'TestFlushOnPrune|TestInitConsistentState'" if pkgdir == 'blockchain' else ''
        # 1. demo passes on the clean tree
        shutil.copy(os.path.join(sd, 'demo_test.go'), demo_dst)
        rc0, out0 = sh("go test -vet=off -count=1 -run 'Demo' ./%s" % rel, cwd=moddir)
        ran.append('clean tree: demo rc=%d' % rc0)
        # 2. apply patch: demo fails
        rc, out = sh('git apply %s' % patch, cwd=WT)
        if rc:
            print('patch does not apply:', out); return 2
        rc1, out1 = sh("go test -vet=off -count=1 -run 'Demo' ./%s" % rel, cwd=moddir)
        ran.append('patched: demo rc=%d' % rc1)
        # 3. existing tests pass with the patch (without the demo)
        os.remove(demo_dst)
        rc2, out2 = sh("go test -vet=off -count=1 %s ./%s" % (skip, rel), cwd=moddir)
        ran.append('patched: existing package tests rc=%d' % rc2)
        sh('git checkout -- . && git clean -fdq', cwd=WT)
        ok_verify = (rc0 == 0 and rc1 != 0 and rc2 == 0)
        print('VERIFY', 'ok' if ok_verify else 'FAILED', ran)
        if not ok_verify:
            print(out0[-600:], out1[-600:], out2[-1200:])
    # run the check against the change in /repo (or, with --scratch, in a scratch worktree via VERIF_REPO, so that
    # /repo stays untouched while other checks are running against it)
    target = '/repo'
    if '--scratch' in args:
        target = '/tmp/wt_seed_%d' % os.getpid()
        rc, out = sh('git -C /repo worktree add -q --detach %s HEAD' % target)
        if rc:
            print(out); return 2
        ENV['VERIF_REPO'] = target
    rc, out = sh('git -C %s status --porcelain' % target)
    if out.strip():
        print('%s is not clean, refusing' % target); return 2
    rc, out = sh('git -C %s apply %s' % (target, patch))
    if rc:
        print('patch does not apply to %s:' % target, out); return 2
    t = time.time()
    try:
        cmd = './check %s --no-validate' % prop + ((' --only ' + only) if only else '')
        crc, cout = sh(cmd, cwd='/verif', timeout=3000)
    finally:
        sh('git -C %s checkout -- .' % target)
        if target != '/repo':
            sh('git -C /repo worktree remove --force %s' % target)
    viol = [l for l in cout.split('\n') if l.startswith('VIOLATION')]
    caught = crc == 1 and bool(viol)
    print('CHECK rc=%d caught=%s in %.0fs' % (crc, caught, time.time() - t))
    for l in cout.split('\n')[-12:]:
        print('   ', l)
    if keep and (ok_verify or not verify):
        dst = os.path.join('/verif/seeded', keep)
        os.makedirs(dst, exist_ok=True)
        for f in ('patch.diff', 'demo_test.go'):
            if os.path.abspath(os.path.join(sd, f)) != os.path.abspath(os.path.join(dst, f)):
                shutil.copy(os.path.join(sd, f), os.path.join(dst, f))
        if ran:
            meta['confirmed'] = ran
        meta['check_result'] = dict(cmd=cmd, rc=crc, caught=caught, violations=viol[:5])
        json.dump(meta, open(os.path.join(dst, 'meta.json'), 'w'), indent=1)
    return 0


if __name__ == '__main__':
    sys.exit(main())
