#!/usr/bin/env python3
"""prints a markdown index of all harness roots with their leading comment (first sentence block)"""
import glob, os, re
for d in sorted(glob.glob('/verif/harness/C*/')):
    pid = os.path.basename(d.rstrip('/'))
    print('\n**%s**\n' % pid)
    for f in sorted(glob.glob(d + '*.go')):
        real = os.path.realpath(f)
        shared = '' if real == f else ' (shared file of %s)' % real.split('/')[-2]
        lines = open(f).read().split('\n')
        for i, l in enumerate(lines):
            m = re.match(r'^func (VH_\w+)\(\)', l)
            if not m:
                continue
            j = i - 1
            com = []
            opts = ''
            while j >= 0 and lines[j].startswith('//'):
                if lines[j].startswith('//verif:opts'):
                    opts = lines[j][len('//verif:opts'):].strip()
                else:
                    com.insert(0, lines[j][2:].strip())
                j -= 1
            text = ' '.join(com)
            if len(text) > 330:
                text = text[:327] + '...'
            print('* `%s`%s - %s%s' % (m.group(1), shared, text, (' [opts: %s]' % opts) if opts else ''))
