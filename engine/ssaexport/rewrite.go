// Source rewriting for native replays of harnesses that stub an environment function (database, network):
// the named function of a /repo source file is renamed to <name>__vorig and a forwarder with the original name
// and signature is appended, which calls the harness stub when the running harness asked for it and the
// original otherwise.  The rewritten file exists only in the go test -overlay of the replay.
package main

import (
	"bytes"
	"fmt"
	"go/ast"
	"go/parser"
	"go/printer"
	"go/token"
	"os"
	"strings"
)

// spec: Recv.name=stub@root1|root2;name=stub@root
func rewriteFile(file, spec, out string) error {
	fset := token.NewFileSet()
	f, err := parser.ParseFile(fset, file, nil, parser.ParseComments)
	if err != nil {
		return err
	}
	var tail bytes.Buffer
	for _, one := range strings.Split(spec, ";") {
		if one == "" {
			continue
		}
		eq := strings.SplitN(one, "=", 2)
		target := eq[0]
		type alt struct {
			stub  string
			roots []string
		}
		var alts []alt
		for _, a := range strings.Split(eq[1], ",") {
			at := strings.SplitN(a, "@", 2)
			alts = append(alts, alt{at[0], strings.Split(at[1], "|")})
		}
		recv, name := "", target
		if i := strings.Index(target, "."); i >= 0 {
			recv, name = target[:i], target[i+1:]
		}
		found := false
		for _, d := range f.Decls {
			fd, ok := d.(*ast.FuncDecl)
			if !ok || fd.Name.Name != name || fd.Body == nil {
				continue
			}
			rt := ""
			if fd.Recv != nil && len(fd.Recv.List) == 1 {
				t := fd.Recv.List[0].Type
				if st, ok := t.(*ast.StarExpr); ok {
					t = st.X
				}
				if id, ok := t.(*ast.Ident); ok {
					rt = id.Name
				}
			}
			if rt != recv {
				continue
			}
			found = true
			var args []string
			recvName := ""
			if fd.Recv != nil {
				fl := fd.Recv.List[0]
				if len(fl.Names) == 0 || fl.Names[0].Name == "_" {
					fl.Names = []*ast.Ident{ast.NewIdent("vrecv")}
				}
				recvName = fl.Names[0].Name
				args = append(args, recvName)
			}
			k := 0
			for _, p := range fd.Type.Params.List {
				if len(p.Names) == 0 {
					p.Names = []*ast.Ident{ast.NewIdent(fmt.Sprintf("vp%d", k))}
					k++
				}
				for _, n := range p.Names {
					if n.Name == "_" {
						n.Name = fmt.Sprintf("vp%d", k)
						k++
					}
					a := n.Name
					if _, ok := p.Type.(*ast.Ellipsis); ok {
						a += "..."
					}
					args = append(args, a)
				}
			}
			var sig bytes.Buffer
			sig.WriteString("func ")
			if fd.Recv != nil {
				var rtx bytes.Buffer
				printer.Fprint(&rtx, fset, fd.Recv.List[0].Type)
				sig.WriteString("(" + recvName + " " + rtx.String() + ") ")
			}
			sig.WriteString(name)
			var ft bytes.Buffer
			printer.Fprint(&ft, fset, fd.Type)
			sig.WriteString(strings.TrimPrefix(ft.String(), "func"))
			ret := ""
			if fd.Type.Results != nil && len(fd.Type.Results.List) > 0 {
				ret = "return "
			}
			orig := name + "__vorig"
			origArgs := args
			if recvName != "" {
				orig = recvName + "." + orig
				origArgs = args[1:]
			}
			after := "\n\t\treturn"
			if ret != "" {
				after = ""
			}
			fmt.Fprintf(&tail, "\n%s {\n", sig.String())
			for _, a := range alts {
				conds := make([]string, len(a.roots))
				for i, r := range a.roots {
					conds[i] = fmt.Sprintf("vRoot == %q", r)
				}
				fmt.Fprintf(&tail, "\tif %s {\n\t\t%s%s(%s)%s\n\t}\n", strings.Join(conds, " || "), ret, a.stub,
					strings.Join(args, ", "), after)
			}
			fmt.Fprintf(&tail, "\t%s%s(%s)\n}\n", ret, orig, strings.Join(origArgs, ", "))
			fd.Name.Name = name + "__vorig"
		}
		if !found {
			return fmt.Errorf("rewrite: %s not found in %s", target, file)
		}
	}
	var buf bytes.Buffer
	if err := printer.Fprint(&buf, fset, f); err != nil {
		return err
	}
	buf.Write(tail.Bytes())
	return os.WriteFile(out, buf.Bytes(), 0o644)
}
