// ssaexport: load a Go module directory (with harness files injected through a
// go/packages overlay), build go/ssa for it and write the functions reachable
// from the harness roots as one JSON document for the symbolic executor.
//
// Nothing is cached: every invocation re-reads /repo's working tree.
package main

import (
	"encoding/json"
	"flag"
	"fmt"
	"go/constant"
	"go/token"
	"go/types"
	"os"
	"sort"
	"strings"

	"golang.org/x/tools/go/packages"
	"golang.org/x/tools/go/ssa"
	"golang.org/x/tools/go/ssa/ssautil"
)

type J = map[string]any

var (
	typeIDs  = map[types.Type]int{}
	typeTab  []J
	typeKeys = map[string]int{}
	sizes    types.Sizes
	prog     *ssa.Program
	funcs    = map[string]J{}
	work     []*ssa.Function
	seen     = map[*ssa.Function]bool{}
	globals  = map[string]J{}
	mset     = map[string]map[string]string{} // type string -> method name -> func name
	initRoot = map[*ssa.Function]bool{}
	msetSeen = map[string]bool{}
	pkgOrder = map[string]int{}
)

// Packages whose function bodies are never exported: calls into them are
// either intrinsics of the executor or unsupported.
var neverExport = []string{
	"runtime", "sync", "reflect", "unsafe", "os", "syscall", "internal/", "fmt", "log",
	"time", "math/big", "crypto/", "hash/", "math/rand", "golang.org/x/crypto/", "math",
	"github.com/btcsuite/btclog", "strconv", "unicode", "encoding/json",
	"github.com/decred/dcrd/dcrec/secp256k1", "github.com/aead/siphash", "net", "bufio",
	"github.com/davecgh/go-spew", "github.com/syndtr/goleveldb", "path", "context", "iter",
	"github.com/decred/dcrd/crypto/blake256", "compress/", "text/", "regexp", "testing",
	"weak", "unique", "github.com/minio/sha256-simd",
}

// exceptions to neverExport (bodies that are plain Go and useful to execute).
var alwaysExport = []string{"math/bits"}

func blocked(path string) bool {
	for _, a := range alwaysExport {
		if path == a {
			return false
		}
	}
	for _, p := range neverExport {
		if path == p || strings.HasPrefix(path, p+"/") || (strings.HasSuffix(p, "/") && strings.HasPrefix(path, p)) {
			return true
		}
	}
	return false
}

func tid(t types.Type) int {
	if t == nil {
		return -1
	}
	if id, ok := typeIDs[t]; ok {
		return id
	}
	str := types.TypeString(t, nil)
	key := fmt.Sprintf("%T:%s", t, str)
	if id, ok := typeKeys[key]; ok {
		typeIDs[t] = id
		return id
	}
	id := len(typeTab)
	typeIDs[t] = id
	typeKeys[key] = id
	e := J{"id": id, "str": str}
	typeTab = append(typeTab, e)
	func() {
		defer func() { recover() }()
		e["size"] = sizes.Sizeof(t)
	}()
	switch u := t.(type) {
	case *types.Named:
		e["kind"] = "named"
		e["name"] = u.Obj().Name()
		if u.Obj().Pkg() != nil {
			e["pkg"] = u.Obj().Pkg().Path()
		}
		e["under"] = tid(u.Underlying())
	case *types.Alias:
		e["kind"] = "alias"
		e["under"] = tid(types.Unalias(u))
	case *types.Basic:
		e["kind"] = "basic"
		e["name"] = u.Name()
		e["info"] = int(u.Info())
		e["bkind"] = int(u.Kind())
	case *types.Pointer:
		e["kind"] = "ptr"
		e["elem"] = tid(u.Elem())
	case *types.Slice:
		e["kind"] = "slice"
		e["elem"] = tid(u.Elem())
	case *types.Array:
		e["kind"] = "array"
		e["elem"] = tid(u.Elem())
		e["len"] = u.Len()
	case *types.Map:
		e["kind"] = "map"
		e["key"] = tid(u.Key())
		e["elem"] = tid(u.Elem())
	case *types.Chan:
		e["kind"] = "chan"
		e["elem"] = tid(u.Elem())
	case *types.Struct:
		e["kind"] = "struct"
		fs := []J{}
		for i := 0; i < u.NumFields(); i++ {
			f := u.Field(i)
			fs = append(fs, J{"name": f.Name(), "type": tid(f.Type()), "emb": f.Embedded()})
		}
		e["fields"] = fs
	case *types.Tuple:
		e["kind"] = "tuple"
		ts := []int{}
		for i := 0; i < u.Len(); i++ {
			ts = append(ts, tid(u.At(i).Type()))
		}
		e["elems"] = ts
	case *types.Signature:
		e["kind"] = "func"
	case *types.Interface:
		e["kind"] = "iface"
		ms := []string{}
		for i := 0; i < u.NumMethods(); i++ {
			ms = append(ms, u.Method(i).Name())
		}
		e["methods"] = ms
	default:
		e["kind"] = fmt.Sprintf("%T", t)
	}
	return id
}

func enqueue(f *ssa.Function) {
	if f == nil || seen[f] {
		return
	}
	seen[f] = true
	if f.Name() == "init" && f.Synthetic != "" && !initRoot[f] {
		return
	}
	p := f.Pkg
	if p == nil && f.Origin() != nil {
		p = f.Origin().Pkg
	}
	if p != nil && blocked(p.Pkg.Path()) {
		return
	}
	if p == nil {
		// wrappers / bound methods: block if the receiver's package is blocked
		if o := f.Object(); o != nil && o.Pkg() != nil && blocked(o.Pkg().Path()) {
			return
		}
	}
	work = append(work, f)
}

// addMethods records the method set of a concrete type that flows into an interface.
func addMethods(t types.Type) {
	key := types.TypeString(t, nil)
	if msetSeen[key] {
		return
	}
	msetSeen[key] = true
	ms := prog.MethodSets.MethodSet(t)
	m := map[string]string{}
	for i := 0; i < ms.Len(); i++ {
		sel := ms.At(i)
		fn := prog.MethodValue(sel)
		if fn != nil {
			m[sel.Obj().Name()] = fn.String()
			enqueue(fn)
		}
	}
	mset[key] = m
}

func constVal(c *ssa.Const) any {
	if c.Value == nil {
		return nil
	}
	switch c.Value.Kind() {
	case constant.Bool:
		return constant.BoolVal(c.Value)
	case constant.String:
		return []byte(constant.StringVal(c.Value)) // base64 in JSON; exact bytes
	case constant.Int:
		return c.Value.ExactString()
	case constant.Float:
		f, _ := constant.Float64Val(c.Value)
		return f
	}
	return c.Value.ExactString()
}

func operand(v ssa.Value) J {
	switch x := v.(type) {
	case nil:
		return nil
	case *ssa.Const:
		k := "int"
		if x.Value == nil {
			k = "zero"
		} else {
			switch x.Value.Kind() {
			case constant.Bool:
				k = "bool"
			case constant.String:
				k = "string"
			case constant.Float:
				k = "float"
				if b, ok := x.Type().Underlying().(*types.Basic); ok && b.Info()&types.IsInteger != 0 {
					k = "int"
				}
			case constant.Complex:
				k = "complex"
			}
		}
		j := J{"k": "const", "ck": k, "t": tid(x.Type()), "v": constVal(x)}
		if k == "int" && x.Value != nil && x.Value.Kind() == constant.Float {
			j["v"] = constant.ToInt(x.Value).ExactString()
		}
		return j
	case *ssa.Global:
		gn := x.String()
		if _, ok := globals[gn]; !ok {
			globals[gn] = J{"t": tid(x.Type()), "pkg": x.Pkg.Pkg.Path()}
		}
		return J{"k": "global", "n": gn, "t": tid(x.Type())}
	case *ssa.Function:
		enqueue(x)
		return J{"k": "func", "n": x.String(), "t": tid(x.Type())}
	case *ssa.Builtin:
		return J{"k": "builtin", "n": x.Name()}
	case *ssa.Parameter:
		return J{"k": "reg", "n": "p:" + x.Name(), "t": tid(x.Type())}
	case *ssa.FreeVar:
		return J{"k": "reg", "n": "f:" + x.Name(), "t": tid(x.Type())}
	default:
		return J{"k": "reg", "n": v.Name(), "t": tid(v.Type())}
	}
}

func ops(vs []ssa.Value) []J {
	r := make([]J, len(vs))
	for i, v := range vs {
		r[i] = operand(v)
	}
	return r
}

func callCommon(c *ssa.CallCommon, e J) {
	e["args"] = ops(c.Args)
	if c.IsInvoke() {
		e["invoke"] = c.Method.Name()
		e["recv"] = operand(c.Value)
		e["recvT"] = tid(c.Value.Type())
	} else {
		e["fn"] = operand(c.Value)
		if sc := c.StaticCallee(); sc != nil {
			e["static"] = sc.String()
		}
	}
	sig := c.Signature()
	rt := []int{}
	for i := 0; i < sig.Results().Len(); i++ {
		rt = append(rt, tid(sig.Results().At(i).Type()))
	}
	e["rt"] = rt
}

func instr(in ssa.Instruction) J {
	e := J{}
	if v, ok := in.(ssa.Value); ok {
		e["r"] = v.Name()
		e["t"] = tid(v.Type())
	}
	switch x := in.(type) {
	case *ssa.Alloc:
		e["op"] = "Alloc"
		e["heap"] = x.Heap
		e["elem"] = tid(x.Type().(*types.Pointer).Elem())
	case *ssa.BinOp:
		e["op"] = "BinOp"
		e["o"] = x.Op.String()
		e["x"] = operand(x.X)
		e["y"] = operand(x.Y)
		e["xt"] = tid(x.X.Type())
		e["yt"] = tid(x.Y.Type())
	case *ssa.UnOp:
		e["op"] = "UnOp"
		e["o"] = x.Op.String()
		e["x"] = operand(x.X)
		e["commaok"] = x.CommaOk
	case *ssa.Call:
		e["op"] = "Call"
		callCommon(&x.Call, e)
	case *ssa.Defer:
		e["op"] = "Defer"
		callCommon(&x.Call, e)
	case *ssa.Go:
		e["op"] = "Go"
	case *ssa.ChangeInterface:
		e["op"] = "ChangeInterface"
		e["x"] = operand(x.X)
	case *ssa.ChangeType:
		e["op"] = "ChangeType"
		e["x"] = operand(x.X)
	case *ssa.Convert:
		e["op"] = "Convert"
		e["x"] = operand(x.X)
		e["xt"] = tid(x.X.Type())
	case *ssa.MultiConvert:
		e["op"] = "MultiConvert"
		e["x"] = operand(x.X)
	case *ssa.Extract:
		e["op"] = "Extract"
		e["x"] = operand(x.Tuple)
		e["i"] = x.Index
	case *ssa.Field:
		e["op"] = "Field"
		e["x"] = operand(x.X)
		e["i"] = x.Field
	case *ssa.FieldAddr:
		e["op"] = "FieldAddr"
		e["x"] = operand(x.X)
		e["i"] = x.Field
	case *ssa.Index:
		e["op"] = "Index"
		e["x"] = operand(x.X)
		e["i"] = operand(x.Index)
		e["xt"] = tid(x.X.Type())
	case *ssa.IndexAddr:
		e["op"] = "IndexAddr"
		e["x"] = operand(x.X)
		e["i"] = operand(x.Index)
		e["xt"] = tid(x.X.Type())
	case *ssa.If:
		e["op"] = "If"
		e["c"] = operand(x.Cond)
	case *ssa.Jump:
		e["op"] = "Jump"
	case *ssa.Lookup:
		e["op"] = "Lookup"
		e["x"] = operand(x.X)
		e["i"] = operand(x.Index)
		e["commaok"] = x.CommaOk
		e["xt"] = tid(x.X.Type())
	case *ssa.MakeChan:
		e["op"] = "MakeChan"
		e["size"] = operand(x.Size)
	case *ssa.MakeClosure:
		e["op"] = "MakeClosure"
		e["fn"] = operand(x.Fn)
		e["bind"] = ops(x.Bindings)
	case *ssa.MakeInterface:
		e["op"] = "MakeInterface"
		e["x"] = operand(x.X)
		e["xt"] = tid(x.X.Type())
		addMethods(x.X.Type())
	case *ssa.MakeMap:
		e["op"] = "MakeMap"
	case *ssa.MakeSlice:
		e["op"] = "MakeSlice"
		e["len"] = operand(x.Len)
		e["cap"] = operand(x.Cap)
	case *ssa.MapUpdate:
		e["op"] = "MapUpdate"
		e["m"] = operand(x.Map)
		e["k"] = operand(x.Key)
		e["v"] = operand(x.Value)
	case *ssa.Next:
		e["op"] = "Next"
		e["x"] = operand(x.Iter)
		e["str"] = x.IsString
	case *ssa.Range:
		e["op"] = "Range"
		e["x"] = operand(x.X)
		e["xt"] = tid(x.X.Type())
	case *ssa.Panic:
		e["op"] = "Panic"
		e["x"] = operand(x.X)
	case *ssa.Phi:
		e["op"] = "Phi"
		e["edges"] = ops(x.Edges)
	case *ssa.Return:
		e["op"] = "Return"
		e["res"] = ops(x.Results)
	case *ssa.RunDefers:
		e["op"] = "RunDefers"
	case *ssa.Select:
		e["op"] = "Select"
		e["blocking"] = x.Blocking
		sts := []J{}
		for _, s := range x.States {
			sts = append(sts, J{"dir": int(s.Dir), "chan": operand(s.Chan), "send": operand(s.Send)})
		}
		e["states"] = sts
	case *ssa.Send:
		e["op"] = "Send"
		e["chan"] = operand(x.Chan)
		e["x"] = operand(x.X)
	case *ssa.Slice:
		e["op"] = "Slice"
		e["x"] = operand(x.X)
		e["lo"] = operand(x.Low)
		e["hi"] = operand(x.High)
		e["max"] = operand(x.Max)
		e["xt"] = tid(x.X.Type())
	case *ssa.SliceToArrayPointer:
		e["op"] = "SliceToArrayPointer"
		e["x"] = operand(x.X)
	case *ssa.Store:
		e["op"] = "Store"
		e["a"] = operand(x.Addr)
		e["v"] = operand(x.Val)
	case *ssa.TypeAssert:
		e["op"] = "TypeAssert"
		e["x"] = operand(x.X)
		e["at"] = tid(x.AssertedType)
		e["commaok"] = x.CommaOk
		if _, isIface := x.AssertedType.Underlying().(*types.Interface); !isIface {
			addMethods(x.AssertedType)
		}
	case *ssa.DebugRef:
		return nil
	default:
		e["op"] = fmt.Sprintf("%T", in)
	}
	if p := in.Pos(); p != token.NoPos {
		e["pos"] = prog.Fset.Position(p).Line
	}
	return e
}

func export(f *ssa.Function) {
	e := J{"name": f.String()}
	if f.Pkg != nil {
		e["pkg"] = f.Pkg.Pkg.Path()
	}
	if p := f.Pos(); p != token.NoPos {
		pp := prog.Fset.Position(p)
		e["file"] = pp.Filename
		e["line"] = pp.Line
	}
	if f.Synthetic != "" {
		e["synthetic"] = f.Synthetic
	}
	ps := []J{}
	for _, p := range f.Params {
		ps = append(ps, J{"n": "p:" + p.Name(), "t": tid(p.Type())})
	}
	e["params"] = ps
	fv := []J{}
	for _, p := range f.FreeVars {
		fv = append(fv, J{"n": "f:" + p.Name(), "t": tid(p.Type())})
	}
	e["freevars"] = fv
	rt := []int{}
	for i := 0; i < f.Signature.Results().Len(); i++ {
		rt = append(rt, tid(f.Signature.Results().At(i).Type()))
	}
	e["results"] = rt
	if f.Recover != nil {
		e["recover"] = f.Recover.Index
	}
	bs := []J{}
	n := 0
	for _, b := range f.Blocks {
		is := []J{}
		for _, in := range b.Instrs {
			if j := instr(in); j != nil {
				is = append(is, j)
				n++
			}
		}
		succ, pred := []int{}, []int{}
		for _, s := range b.Succs {
			succ = append(succ, s.Index)
		}
		for _, s := range b.Preds {
			pred = append(pred, s.Index)
		}
		bs = append(bs, J{"i": b.Index, "instrs": is, "succs": succ, "preds": pred, "c": b.Comment})
	}
	e["blocks"] = bs
	e["ninstr"] = n
	funcs[f.String()] = e
}

func drain() {
	for len(work) > 0 {
		f := work[len(work)-1]
		work = work[:len(work)-1]
		export(f)
		for _, af := range f.AnonFuncs {
			enqueue(af)
		}
	}
}

func main() {
	dir := flag.String("dir", ".", "module dir")
	overlay := flag.String("overlay", "", "virtual=real,... harness files")
	rootPrefix := flag.String("rootprefix", "VH_", "functions with this name prefix in the loaded packages are roots")
	out := flag.String("o", "ir.json", "output")
	rewrite := flag.String("rewrite", "", "source file to rewrite (native override forwarders), with -spec")
	spec := flag.String("spec", "", "Recv.name=stub@root1|root2;...")
	flag.Parse()
	if *rewrite != "" {
		if err := rewriteFile(*rewrite, *spec, *out); err != nil {
			fmt.Fprintln(os.Stderr, err)
			os.Exit(2)
		}
		return
	}
	cfg := &packages.Config{Mode: packages.LoadAllSyntax, Dir: *dir, Env: os.Environ()}
	if *overlay != "" {
		cfg.Overlay = map[string][]byte{}
		for _, kv := range strings.Split(*overlay, ",") {
			p := strings.SplitN(kv, "=", 2)
			b, err := os.ReadFile(p[1])
			if err != nil {
				fmt.Fprintln(os.Stderr, "overlay:", err)
				os.Exit(2)
			}
			cfg.Overlay[p[0]] = b
		}
	}
	pkgs, err := packages.Load(cfg, flag.Args()...)
	if err != nil {
		fmt.Fprintln(os.Stderr, "load:", err)
		os.Exit(2)
	}
	if packages.PrintErrors(pkgs) > 0 {
		os.Exit(2)
	}
	// dependency order of packages (for running inits)
	n := 0
	var visit func(p *packages.Package)
	vis := map[*packages.Package]bool{}
	visit = func(p *packages.Package) {
		if vis[p] {
			return
		}
		vis[p] = true
		keys := make([]string, 0, len(p.Imports))
		for k := range p.Imports {
			keys = append(keys, k)
		}
		sort.Strings(keys)
		for _, k := range keys {
			visit(p.Imports[k])
		}
		pkgOrder[p.PkgPath] = n
		n++
	}
	for _, p := range pkgs {
		visit(p)
	}
	var spkgs []*ssa.Package
	prog, spkgs = ssautil.AllPackages(pkgs, ssa.InstantiateGenerics)
	prog.Build()
	sizes = types.SizesFor("gc", "amd64")
	roots := []string{}
	for _, sp := range spkgs {
		if sp == nil {
			continue
		}
		names := []string{}
		for name, m := range sp.Members {
			if fn, ok := m.(*ssa.Function); ok && strings.HasPrefix(name, *rootPrefix) {
				names = append(names, name)
				enqueue(fn)
			} else if ok && strings.HasPrefix(name, "vStub") {
				enqueue(fn) // override bodies named by //verif:opts override=
			}
		}
		sort.Strings(names)
		for _, nm := range names {
			roots = append(roots, sp.Pkg.Path()+"."+nm)
		}
	}
	if len(roots) == 0 {
		fmt.Fprintln(os.Stderr, "no roots found")
		os.Exit(2)
	}
	drain()
	// package inits for every package owning an exported global (to fixpoint)
	initNames := map[string]string{}
	for changed := true; changed; {
		changed = false
		for _, g := range globals {
			p := g["pkg"].(string)
			if _, ok := initNames[p]; ok {
				continue
			}
			if blocked(p) {
				initNames[p] = ""
				continue
			}
			if sp := prog.ImportedPackage(p); sp != nil {
				if in := sp.Func("init"); in != nil {
					initNames[p] = in.String()
					initRoot[in] = true
					delete(seen, in)
					enqueue(in)
					changed = true
				}
			}
		}
		drain()
	}
	type po struct {
		p string
		o int
	}
	var order []po
	for p, fn := range initNames {
		if fn != "" {
			order = append(order, po{p, pkgOrder[p]})
		}
	}
	sort.Slice(order, func(i, j int) bool { return order[i].o < order[j].o })
	initList := []J{}
	for _, x := range order {
		initList = append(initList, J{"pkg": x.p, "fn": initNames[x.p]})
	}
	tot := 0
	for _, f := range funcs {
		tot += f["ninstr"].(int)
	}
	doc := J{"types": typeTab, "funcs": funcs, "globals": globals, "methods": mset, "inits": initList, "roots": roots}
	b, err := json.Marshal(doc)
	if err != nil {
		panic(err)
	}
	if err := os.WriteFile(*out, b, 0o644); err != nil {
		panic(err)
	}
	fmt.Fprintf(os.Stderr, "exported %d funcs, %d instrs, %d types, %d globals, %d roots, %d bytes\n", len(funcs), tot, len(typeTab), len(globals), len(roots), len(b))
}
