"""Intrinsics: harness vocabulary, formatting, locks, math/big, time, hashes-as-UF."""
import hashlib
import math
import struct

import z3

from values import *  # noqa
from core import INTRINSICS, PREFIX_INTRINSICS, intrinsic, prefix_intrinsic, Exec, SymIdx

HARNESS = {}


def harness(name):
    def deco(fn):
        HARNESS[name] = fn
        return fn
    return deco


def tagstr(x):
    if isinstance(x, bytes):
        return x.decode()
    raise Unsupported('harness tag must be a constant string')


# ------------------------------------------------------------------ harness vocabulary
def _nondet(width):
    def h(ex, args, ins, where):
        return ex.fresh(tagstr(args[0]), width)
    return h


for _n, _w in (('vNondetU8', 8), ('vNondetU16', 16), ('vNondetU32', 32), ('vNondetU64', 64),
               ('vNondetI8', 8), ('vNondetI16', 16), ('vNondetI32', 32), ('vNondetI64', 64), ('vNondetInt', 64)):
    HARNESS[_n] = _nondet(_w)


@harness('vNondetBool')
def _nbool(ex, args, ins, where):
    return ex.fresh(tagstr(args[0]), 1, boolean=True)


@harness('vNondetBytes')
def _nbytes(ex, args, ins, where):
    tag = tagstr(args[0])
    n = ex.concretize(args[1], 'vNondetBytes length', 256)
    vs = [ex.fresh(tag, 8) for _ in range(n)]
    return SliceV(ex.new_obj(vs), (), 0, n, n)


@harness('vNondetLen')
def _nlen(ex, args, ins, where):
    tag = tagstr(args[0])
    mx = args[1]
    v = ex.fresh(tag, 64)
    if ex.pinned is not None and getattr(ex, 'pinned_prng', False):
        return v % (mx + 1)
    if isinstance(v, z3.ExprRef):
        if ex.intmode:
            ex.add(v <= mx)
        else:
            ex.add(z3.ULE(v, to_bv(mx, 64)))
        return ex.concretize(v, 'vNondetLen ' + tag, 4096)
    return v


@harness('vAssume')
def _assume(ex, args, ins, where):
    if ex.pinned is not None:
        ex.trace.append('assume=1' if args[0] else 'assume=0')
    if not ex.branch(args[0], 'assume'):
        raise PathEnd('assume-false')
    return None


@harness('vAssert')
def _assert(ex, args, ins, where):
    if ex.pinned is not None:
        ex.trace.append('assert=1' if args[0] else 'assert=0:' + tagstr(args[1]))
    ex.obligation(args[0], 'assert', where, tagstr(args[1]))
    return None


@harness('vReach')
def _reach(ex, args, ins, where):
    if ex.pinned is not None:
        ex.trace.append('reach:' + tagstr(args[0]))
    ex.reached.add(tagstr(args[0]))
    return None


@harness('vObserve')
def _observe(ex, args, ins, where):
    if ex.pinned is not None:
        ex.trace.append('%s=%d' % (tagstr(args[0]), args[1]))
    ex.observed.append((tagstr(args[0]), args[1]))
    return None


@harness('vTier')
def _tier(ex, args, ins, where):
    return getattr(ex, 'tier', 0)


@harness('vSplit')
def _split(ex, args, ins, where):
    return ex.concretize(args[0], 'vSplit ' + where, args[1] if not is_sym(args[1]) else 256)


HARNESS['vSplitU64'] = _split
HARNESS['vSplitU32'] = _split
HARNESS['vSplitU8'] = _split


@harness('vAllocBound')
def _allocbound(ex, args, ins, where):
    ex.alloc_bound = args[0]
    return None


@harness('vAllocSplit')
def _allocsplit(ex, args, ins, where):
    ex.alloc_split = args[0]
    return None


@harness('vSliceSplit')
def _slicesplit(ex, args, ins, where):
    ex.slice_split = args[0]
    return None


@harness('vCut')
def _cut(ex, args, ins, where):
    ex.stats['cuts'] += 1
    ex.cut_notes.add(tagstr(args[0]))
    raise PathEnd('cut', tagstr(args[0]))


_orig_call = Exec.call


def _call(self, fname, args, ins, where, depth):
    i = fname.rfind('.')
    short = fname[i + 1:]
    if short[:1] == 'v':
        h = HARNESS.get(short)
        if h is not None:
            return h(self, args, ins, where)
    return _orig_call(self, fname, args, ins, where, depth)


Exec.call = _call


# ------------------------------------------------------------------ fmt / errors / log
def opaque_err(what='error'):
    return Iface(-1, Opaque(what))


@intrinsic('fmt.Sprintf', 'fmt.Sprint', 'fmt.Sprintln', 'strconv.Itoa', 'strconv.FormatInt', 'strconv.Quote',
           'encoding/hex.EncodeToString', 'strconv.FormatUint')
def _sprintf(ex, args, ins, where):
    # exact for the simple concrete case (format of %s / %d / %v verbs only, concrete string / int arguments): callers
    # such as wire.MsgVersion.AddUserAgent go on to measure the result
    try:
        fmtb, va = (args + [None])[:2]
        if isinstance(fmtb, (bytes, bytearray)) and isinstance(va, SliceV) and len(args) == 2:
            vals = ex.slice_elems(va)
            parts = bytes(fmtb).split(b'%')
            out = bytearray(parts[0])
            k = 0
            okay = True
            for seg in parts[1:]:
                if not seg or seg[:1] not in b'sdv' or k >= len(vals):
                    okay = False
                    break
                v = vals[k]
                k += 1
                v = v.v if isinstance(v, Iface) else v
                if isinstance(v, (bytes, bytearray)) and seg[:1] in b'sv':
                    out += bytes(v)
                elif isinstance(v, int) and not isinstance(v, bool) and seg[:1] in b'dv':
                    out += str(v).encode()
                else:
                    okay = False
                    break
                out += seg[1:]
            if okay and k == len(vals):
                return bytes(out)
    except Exception:
        pass
    return Opaque('formatted string')


@intrinsic('fmt.Errorf')
def _errorf(ex, args, ins, where):
    return opaque_err('fmt.Errorf')


@intrinsic('fmt.Fprintf', 'fmt.Printf', 'fmt.Println', 'fmt.Fprintln', 'fmt.Fprint', 'fmt.Print')
def _printf(ex, args, ins, where):
    return [0, NIL]


@intrinsic('opaque-error.Error')
def _opaque_error_str(ex, args, ins, where):
    return Opaque('error text')


@intrinsic('errors.Is')
def _errors_is(ex, args, ins, where):
    err, target = args
    depth = 0
    while err is not NIL and depth < 8:
        if isinstance(err, Iface) and isinstance(target, Iface) and err.t != -1 and target.t != -1:
            T = ex.T
            if T.canon(err.t) == T.canon(target.t):
                try:
                    eq = ex.equal(err.v, target.v, err.t)
                except Unsupported:
                    eq = False
                if ex.branch(eq, 'errors.Is'):
                    return True
        if not isinstance(err, Iface) or err.t == -1:
            return False
        ms = ex.ir['methods'].get(ex.T.canon(err.t), {})
        if 'Unwrap' not in ms:
            return False
        err = ex.call(ms['Unwrap'], [err.v], ins, where, 10)
        depth += 1
    return False


@intrinsic('errors.As')
def _errors_as(ex, args, ins, where):
    err, target = args
    if err is NIL:
        return False
    if not isinstance(target, Iface) or not isinstance(target.v, Ptr):
        raise Unsupported('errors.As target')
    tt = ex.T.elem(target.t)
    depth = 0
    while err is not NIL and depth < 8:
        if not isinstance(err, Iface) or err.t == -1:
            return False
        if ex.T.kind(tt) == 'iface':
            if ex.implements(err.t, tt):
                ex.store(target.v, err, where, tt)
                return True
        elif ex.T.canon(err.t) == ex.T.canon(tt):
            ex.store(target.v, err.v, where, tt)
            return True
        ms = ex.ir['methods'].get(ex.T.canon(err.t), {})
        if 'Unwrap' not in ms:
            return False
        err = ex.call(ms['Unwrap'], [err.v], ins, where, 10)
        depth += 1
    return False


@prefix_intrinsic('(github.com/btcsuite/btclog.Logger).', '(*github.com/btcsuite/btclog.', '(github.com/btcsuite/btclog.',
                  'github.com/btcsuite/btclog.')
def _log(ex, fname, args, ins, where):
    return None if not ins.get('rt') else ex.zero(ins['rt'][0])


def _noop(ex, args, ins, where):
    return None


for _n in ('(*sync.Mutex).Lock', '(*sync.Mutex).Unlock', '(*sync.RWMutex).Lock', '(*sync.RWMutex).Unlock',
           '(*sync.RWMutex).RLock', '(*sync.RWMutex).RUnlock', '(*sync.WaitGroup).Add', '(*sync.WaitGroup).Done',
           '(*sync.WaitGroup).Wait', 'runtime.KeepAlive', 'runtime.GC', '(*sync.Pool).Put', 'runtime.Gosched'):
    INTRINSICS[_n] = _noop


@intrinsic('(*sync.Mutex).TryLock', '(*sync.RWMutex).TryLock')
def _trylock(ex, args, ins, where):
    return True


@intrinsic('(*sync.Pool).Get')
def _pool_get(ex, args, ins, where):
    # an empty pool is always a legal state: Get calls New
    pool = ex.load(args[0], where, None)
    T = ex.T
    # find field New
    for t in T.tab:
        if t['kind'] == 'named' and t.get('pkg') == 'sync' and t['name'] == 'Pool':
            fs = T.fields(t['id'])
            for i, f in enumerate(fs):
                if f['name'] == 'New':
                    fn = pool[i]
                    if fn is NIL:
                        return NIL
                    return ex.call_value(fn, [], ins, where, 10)
    raise Unsupported('sync.Pool layout')


@intrinsic('(*sync.Once).Do')
def _once_do(ex, args, ins, where):
    o = args[0]
    st = ex.load(o, where, None)
    key = ('once', o.obj, o.path)
    done = ex.once_done if hasattr(ex, 'once_done') else None
    # store the flag inside the struct's first field so that it follows the heap
    flag = st[0]
    if isinstance(flag, list):
        inner = flag
        if inner and inner[-1] == 1:
            return None
    if st and st[-1] == 'done':
        return None
    ex.heap[o.obj] = ex._replace(ex.heap[o.obj], o.path, list(st) + ['done'])
    ex.call_value(args[1], [], ins, where, 10)
    return None


# atomics: plain operations (single-threaded harnesses)
def _atomic_load(ex, args, ins, where):
    return ex.load(args[0], where, ins['t'])


def _atomic_store(ex, args, ins, where):
    ex.store(args[0], args[1], where, ins['args'][1]['t'])
    return None


def _atomic_add(ex, args, ins, where):
    t = ins['t']
    v = ex.load(args[0], where, t)
    r = ex.binop('+', v, args[1], t, t, t)
    ex.store(args[0], r, where, t)
    return r


def _atomic_cas(ex, args, ins, where):
    t = ins['args'][1]['t']
    v = ex.load(args[0], where, t)
    if ex.branch(ex.equal(v, args[1], t), 'cas'):
        ex.store(args[0], args[2], where, t)
        return True
    return False


def _atomic_swap(ex, args, ins, where):
    t = ins['t']
    v = ex.load(args[0], where, t)
    ex.store(args[0], args[1], where, t)
    return v


for _t in ('Int32', 'Int64', 'Uint32', 'Uint64', 'Uintptr'):
    INTRINSICS['sync/atomic.Load' + _t] = _atomic_load
    INTRINSICS['sync/atomic.Store' + _t] = _atomic_store
    INTRINSICS['sync/atomic.Add' + _t] = _atomic_add
    INTRINSICS['sync/atomic.CompareAndSwap' + _t] = _atomic_cas
    INTRINSICS['sync/atomic.Swap' + _t] = _atomic_swap


@prefix_intrinsic('(*sync/atomic.')
def _atomic_types(ex, fname, args, ins, where):
    # (*sync/atomic.Int32).Load etc: the value lives in the struct's field named "v"
    tname, m = fname[len('(*sync/atomic.'):].split(').')
    p = args[0]
    st = ex.load(p, where, None)
    if tname == 'Bool':
        vi = len(st) - 1
        cur = st[vi]
        if m == 'Load':
            return (cur != 0) if not is_sym(cur) else cur != 0
        if m == 'Store':
            val = args[1]
            nv = (1 if val else 0) if not is_sym(val) else z3.If(val, z3.BitVecVal(1, 32), z3.BitVecVal(0, 32))
            ex.heap[p.obj] = ex._replace(ex.heap[p.obj], p.path + (vi,), nv)
            return None
        raise Unsupported('atomic.Bool.' + m)
    if tname in ('Int32', 'Int64', 'Uint32', 'Uint64'):
        vi = len(st) - 1
        w = 32 if '32' in tname else 64
        cur = st[vi]
        T = ex.T
        t = T.by_str[tname.lower()]
        if m == 'Load':
            return cur
        if m == 'Store':
            ex.heap[p.obj] = ex._replace(ex.heap[p.obj], p.path + (vi,), args[1])
            return None
        if m == 'Add':
            r = ex.binop('+', cur, args[1], t, t, t)
            ex.heap[p.obj] = ex._replace(ex.heap[p.obj], p.path + (vi,), r)
            return r
        if m == 'Swap':
            ex.heap[p.obj] = ex._replace(ex.heap[p.obj], p.path + (vi,), args[1])
            return cur
        if m == 'CompareAndSwap':
            if ex.branch(ex.equal(cur, args[1], t), 'cas'):
                ex.heap[p.obj] = ex._replace(ex.heap[p.obj], p.path + (vi,), args[2])
                return True
            return False
    return NotImplemented


# ------------------------------------------------------------------ math
@intrinsic('math.Log2')
def _log2(ex, args, ins, where):
    return math.log2(args[0])


@intrinsic('math.Ceil')
def _ceil(ex, args, ins, where):
    return float(math.ceil(args[0]))


@intrinsic('math.Floor')
def _floor(ex, args, ins, where):
    return float(math.floor(args[0]))


@intrinsic('math.Pow')
def _pow(ex, args, ins, where):
    return math.pow(args[0], args[1])


@intrinsic('math.Log')
def _log_(ex, args, ins, where):
    return math.log(args[0])


@intrinsic('math.Exp')
def _exp_(ex, args, ins, where):
    return math.exp(args[0])


@intrinsic('math.Float64bits')
def _f64bits(ex, args, ins, where):
    return struct.unpack('<Q', struct.pack('<d', args[0]))[0]


@intrinsic('math.Inf')
def _inf(ex, args, ins, where):
    return float('inf') if sval(args[0], 64) >= 0 else float('-inf')


@intrinsic('math.Abs')
def _abs(ex, args, ins, where):
    return abs(args[0])


@intrinsic('math.Min')
def _fmin(ex, args, ins, where):
    return min(args[0], args[1])


@intrinsic('math.Max')
def _fmax(ex, args, ins, where):
    return max(args[0], args[1])


# ------------------------------------------------------------------ bytes / strings helpers with asm bodies
@intrinsic('bytes.IndexByte', 'internal/bytealg.IndexByte')
def _indexbyte(ex, args, ins, where):
    s, c = args
    els = ex.slice_elems(s)
    for i, b in enumerate(els):
        if ex.branch(ex.equal(b, c, ex.t_uint8), 'IndexByte'):
            return i
    return mask(-1, 64)


@intrinsic('strings.IndexByte', 'internal/bytealg.IndexByteString')
def _sindexbyte(ex, args, ins, where):
    s, c = args
    for i, b in enumerate(str_bytes(s)):
        if ex.branch(ex.equal(b, c, ex.t_uint8), 'IndexByte'):
            return i
    return mask(-1, 64)


@intrinsic('strings.LastIndexByte')
def _slastindexbyte(ex, args, ins, where):
    s, c = args
    bs = str_bytes(s)
    for i in range(len(bs) - 1, -1, -1):
        if ex.branch(ex.equal(bs[i], c, ex.t_uint8), 'LastIndexByte'):
            return i
    return mask(-1, 64)


def _case_map(ex, s, lower):
    out = []
    for b in str_bytes(s):
        if is_sym(b):
            if lower:
                out.append(z3.If(z3.And(z3.UGE(b, 65), z3.ULE(b, 90)), b + 32, b))
            else:
                out.append(z3.If(z3.And(z3.UGE(b, 97), z3.ULE(b, 122)), b - 32, b))
        else:
            if b >= 0x80:
                raise Unsupported('non-ASCII case mapping')
            if lower:
                out.append(b + 32 if 65 <= b <= 90 else b)
            else:
                out.append(b - 32 if 97 <= b <= 122 else b)
    return out


def _assume_ascii(ex, s):
    for b in str_bytes(s):
        if is_sym(b):
            if not ex.branch(z3.ULT(b, 0x80), 'ascii'):
                ex.stats['cuts'] += 1
                ex.cut_notes.add('non-ASCII bytes in strings.ToLower/ToUpper input')
                raise PathEnd('cut', 'non-ASCII string')


@intrinsic('strings.ToLower')
def _tolower(ex, args, ins, where):
    _assume_ascii(ex, args[0])
    return mkstr(_case_map(ex, args[0], True))


@intrinsic('strings.ToUpper')
def _toupper(ex, args, ins, where):
    _assume_ascii(ex, args[0])
    return mkstr(_case_map(ex, args[0], False))


@intrinsic('bytes.Equal')
def _bytes_equal(ex, args, ins, where):
    a, b = args
    ea, eb = ex.slice_elems(a), ex.slice_elems(b)
    if len(ea) != len(eb):
        return False
    r = True
    for x, y in zip(ea, eb):
        r = ex.conj(r, ex.equal(x, y, ex.t_uint8))
        if r is False:
            return False
    return simp(r) if is_sym(r) else r


@intrinsic('bytes.Compare')
def _bytes_compare(ex, args, ins, where):
    a, b = args
    ea, eb = ex.slice_elems(a), ex.slice_elems(b)
    n = min(len(ea), len(eb))
    tail = 0 if len(ea) == len(eb) else (mask(-1, 64) if len(ea) < len(eb) else 1)
    r = tail
    for i in range(n - 1, -1, -1):
        x, y = ea[i], eb[i]
        if not is_sym(x) and not is_sym(y):
            if x != y:
                r = mask(-1, 64) if x < y else 1
            continue
        xx, yy = to_bv(x, 8), to_bv(y, 8)
        r = z3.If(z3.ULT(xx, yy), z3.BitVecVal(mask(-1, 64), 64), z3.If(z3.UGT(xx, yy), z3.BitVecVal(1, 64), to_bv(r, 64)))
    return simp(r)


# ------------------------------------------------------------------ hashes as uninterpreted functions
def _b8(b):
    if isinstance(b, z3.ArithRef):
        return z3.Int2BV(b, 8)   # integer-backend byte used only as an argument of an uninterpreted function
    return to_bv(b, 8)


def bytes_to_bv(bs):
    """concatenate byte values (first byte most significant)"""
    return z3.Concat(*[_b8(b) for b in bs]) if len(bs) > 1 else _b8(bs[0])


def uf_hash(ex, name, bs, outbytes, real=None):
    """name: UF family; bs: list of byte values; returns list of outbytes byte values"""
    if all(not is_sym(b) for b in bs) and real is not None:
        return list(real(bytes(bs)))
    if ex.pinned is not None and real is not None:
        return list(real(bytes(bs)))
    n = len(bs)
    key = (name, n)
    f = ex.uf_cache.get(key)
    if n == 0:
        out = z3.BitVec('%s_empty' % name, 8 * outbytes)
    else:
        if f is None:
            f = ex.uf_cache[key] = z3.Function('%s_%d' % (name, n), z3.BitVecSort(8 * n), z3.BitVecSort(8 * outbytes))
        out = f(bytes_to_bv(bs))
    if 'hash-uf:' + name not in ex.cut_notes:
        ex.cut_notes.add('hash-uf:' + name)
    res = [z3.Extract(8 * (outbytes - i) - 1, 8 * (outbytes - i - 1), out) for i in range(outbytes)]
    if ex.intmode:
        res = [z3.BV2Int(x) for x in res]
    return res


def _sha256(b):
    return hashlib.sha256(b).digest()


def _sha1(b):
    return hashlib.sha1(b).digest()


def _ripemd160(b):
    try:
        return hashlib.new('ripemd160', b).digest()
    except Exception:
        raise Unsupported('ripemd160 not available for concrete input')


@intrinsic('crypto/sha256.Sum256')
def _sum256(ex, args, ins, where):
    return uf_hash(ex, 'sha256', ex.slice_elems(args[0]), 32, _sha256)


@intrinsic('crypto/sha1.Sum')
def _sum1(ex, args, ins, where):
    return uf_hash(ex, 'sha1', ex.slice_elems(args[0]), 20, _sha1)


class HashObj:
    """hash.Hash under construction: immutable tuple of collected bytes lives in the heap"""


HASH_KINDS = {'crypto/sha256.New': ('sha256', 32, _sha256), 'crypto/sha1.New': ('sha1', 20, _sha1),
              'golang.org/x/crypto/ripemd160.New': ('ripemd160', 20, _ripemd160)}


def _mk_hash_new(kind):
    def h(ex, args, ins, where):
        obj = ex.new_obj(('hash', kind, ()))
        return Iface(-2, Ptr(obj, ()))
    return h


for _k in HASH_KINDS:
    INTRINSICS[_k] = _mk_hash_new(_k)


def hash_invoke(ex, recv, mname, args, ins, where):
    p = recv.v
    _, kind, data = ex.heap[p.obj]
    name, outn, real = HASH_KINDS[kind]
    if mname == 'Write':
        els = tuple(ex.slice_elems(args[0]))
        ex.heap[p.obj] = ('hash', kind, data + els)
        ex.last_preimage = list(data + els)
        return [len(els), NIL]
    if mname == 'Sum':
        out = uf_hash(ex, name, list(data), outn, real)
        ex.last_preimage = list(data)
        prefix = ex.slice_elems(args[0])
        return ex.mkslice(prefix + out)
    if mname == 'Reset':
        ex.heap[p.obj] = ('hash', kind, ())
        return None
    if mname == 'Size':
        return outn
    if mname == 'BlockSize':
        return 64
    raise Unsupported('hash.Hash.' + mname)


_orig_invoke = Exec.invoke


def _invoke(self, recv, mname, args, ins, where, depth):
    if isinstance(recv, Iface) and recv.t == -2:
        return hash_invoke(self, recv, mname, args, ins, where)
    return _orig_invoke(self, recv, mname, args, ins, where, depth)


Exec.invoke = _invoke


@harness('vUFBig32')
def _uf_big32(ex, args, ins, where):
    """uninterpreted function (sign, magnitude) -> uint32, used to abstract a separately verified callee"""
    tag = tagstr(args[0])
    x = big_get(ex, args[1], where)
    if ex.pinned is not None:
        raise Unsupported('vUFBig32 in pinned mode')
    if ex.intmode:
        f = ex.uf_cache.get(('ufbig', tag))
        if f is None:
            f = ex.uf_cache[('ufbig', tag)] = z3.Function('ufbig_' + tag, z3.BoolSort(), z3.IntSort(), z3.IntSort())
        r = f(to_bool(x.neg), ex.ib(x.mag))
        ex.add(z3.And(r >= 0, r < 2 ** 32))
        return r
    f = ex.uf_cache.get(('ufbig', tag))
    if f is None:
        f = ex.uf_cache[('ufbig', tag)] = z3.Function('ufbig_' + tag, z3.BoolSort(), z3.BitVecSort(ex.bigw), z3.BitVecSort(32))
    return f(to_bool(x.neg), to_bv(x.mag, ex.bigw))


@harness('vLastPreimage')
def _lastpre(ex, args, ins, where):
    return ex.mkslice(getattr(ex, 'last_preimage', []))


# ------------------------------------------------------------------ math/big
def big_ite(ex, c, a, b):
    if ex.intmode:
        return BigV(z3.If(c, to_bool(a.neg), to_bool(b.neg)), z3.If(c, ex.ib(a.mag), ex.ib(b.mag)))
    W = ex.bigw
    return BigV(simp(z3.If(c, to_bool(a.neg), to_bool(b.neg))), simp(z3.If(c, to_bv(a.mag, W), to_bv(b.mag, W))))


def big_get(ex, p, where):
    if p is NIL:
        raise PathEnd('panic', 'nil *big.Int at ' + where)
    v = ex.load(p, where, None)
    if not isinstance(v, BigV):
        raise Unsupported('big.Int object %r' % (v,))
    return v


def big_norm(ex, neg, mag):
    """canonical value: concrete when possible; zero is non-negative"""
    mag = simp(mag)
    if not is_sym(mag):
        if mag == 0:
            return BigV(False, 0)
        neg = simp(neg) if is_sym(neg) else bool(neg)
        return BigV(neg, mag)
    neg = simp(neg) if is_sym(neg) else bool(neg)
    if neg is False:
        return BigV(False, mag)
    return BigV(simp(z3.And(to_bool(neg), mag != 0)), mag)


def big_set(ex, p, val, where):
    if p is NIL:
        raise PathEnd('panic', 'nil *big.Int receiver at ' + where)
    ex.store(p, val, where, None)
    return p


def big_new(ex, val):
    return Ptr(ex.new_obj(val), ())


def big_from_int64(ex, x):
    if not is_sym(x):
        v = sval(x, 64)
        return BigV(v < 0, abs(v))
    if ex.intmode:
        sv = ex.isv(x, 64)
        return BigV(sv < 0, z3.If(sv < 0, -sv, sv))
    W = ex.bigw
    neg = x < 0
    return big_norm(ex, neg, z3.ZeroExt(W - 64, z3.If(neg, -x, x)))


def big_from_uint64(ex, x):
    if not is_sym(x):
        return BigV(False, x)
    if ex.intmode:
        return BigV(False, x)
    return BigV(False, z3.ZeroExt(ex.bigw - 64, x))


def mag_bv(ex, m):
    return to_bv(m, ex.bigw)


def big_overflow_ok(ex, cond, what, where):
    """W-bit magnitude model must not overflow; a failure is an engine bound, not a property violation"""
    ex.obligation(cond, 'bigw', where, 'big.Int magnitude exceeds %d bits in %s' % (ex.bigw, what))


def mag_add(ex, a, b, where):
    if not is_sym(a) and not is_sym(b):
        return a + b
    if ex.intmode:
        return ex.ib(a) + ex.ib(b)
    aa, bb = mag_bv(ex, a), mag_bv(ex, b)
    r = aa + bb
    big_overflow_ok(ex, z3.UGE(r, aa), 'Add', where)
    return r


def mag_sub(ex, a, b):
    """a - b with a >= b assumed by caller through ite"""
    if not is_sym(a) and not is_sym(b):
        return a - b
    if ex.intmode:
        return ex.ib(a) - ex.ib(b)
    return mag_bv(ex, a) - mag_bv(ex, b)


def mag_lt(ex, a, b):
    if not is_sym(a) and not is_sym(b):
        return a < b
    if ex.intmode:
        return ex.ib(a) < ex.ib(b)
    return z3.ULT(mag_bv(ex, a), mag_bv(ex, b))


def mag_eq(ex, a, b):
    if not is_sym(a) and not is_sym(b):
        return a == b
    if ex.intmode:
        return ex.ib(a) == ex.ib(b)
    return mag_bv(ex, a) == mag_bv(ex, b)


def mag_ite(ex, c, a, b):
    if not is_sym(c):
        return a if c else b
    if ex.intmode:
        return z3.If(c, ex.ib(a), ex.ib(b))
    return z3.If(c, mag_bv(ex, a), mag_bv(ex, b))


def bool_ite(c, a, b):
    if not is_sym(c):
        return a if c else b
    return z3.If(c, to_bool(a), to_bool(b))


def big_add(ex, x, y, where, sub=False):
    yneg = ex.neg(y.neg) if sub else y.neg
    if not is_sym(y.mag) and y.mag == 0:
        yneg = False
    same = ex.equal(x.neg, yneg, ex.t_bool) if (is_sym(x.neg) or is_sym(yneg)) else (x.neg == yneg)
    if same is True:
        return big_norm(ex, x.neg, mag_add(ex, x.mag, y.mag, where))
    xlt = mag_lt(ex, x.mag, y.mag)
    diff = mag_ite(ex, xlt, mag_sub(ex, y.mag, x.mag), mag_sub(ex, x.mag, y.mag))
    dneg = bool_ite(xlt, yneg, x.neg)
    if same is False:
        return big_norm(ex, dneg, diff)
    # symbolic signs: both candidates
    if ex.intmode:
        s = ex.ib(x.mag) + ex.ib(y.mag)
    else:
        s = mag_bv(ex, x.mag) + mag_bv(ex, y.mag)
        big_overflow_ok(ex, z3.Or(z3.Not(same), z3.UGE(s, mag_bv(ex, x.mag))), 'Add', where)
    return big_norm(ex, bool_ite(same, x.neg, dneg), mag_ite(ex, same, s, diff))


def big_mul(ex, x, y, where):
    if not is_sym(x.mag) and not is_sym(y.mag):
        m = x.mag * y.mag
    elif ex.intmode:
        m = ex.ib(x.mag) * ex.ib(y.mag)
    else:
        a, b = mag_bv(ex, x.mag), mag_bv(ex, y.mag)
        m = a * b
        big_overflow_ok(ex, z3.BVMulNoOverflow(a, b, False), 'Mul', where)
    neg = simp(z3.Xor(to_bool(x.neg), to_bool(y.neg))) if (is_sym(x.neg) or is_sym(y.neg)) else (x.neg != y.neg)
    return big_norm(ex, neg, m)


def big_quorem(ex, x, y, where):
    """truncated division (Go's Quo/Rem); returns (q, r) BigV"""
    if not is_sym(y.mag):
        if y.mag == 0:
            raise PathEnd('panic', 'division by zero (big.Int) at ' + where)
    else:
        nz = (ex.ib(y.mag) != 0) if ex.intmode else (y.mag != 0)
        if not ex.branch(nz, 'big div0'):
            raise PathEnd('panic', 'division by zero (big.Int) at ' + where)
    if not is_sym(x.mag) and not is_sym(y.mag):
        qm, rm = divmod(x.mag, y.mag)
    elif ex.intmode:
        qm, rm = ex.ib(x.mag) / ex.ib(y.mag), ex.ib(x.mag) % ex.ib(y.mag)
    else:
        a, b = mag_bv(ex, x.mag), mag_bv(ex, y.mag)
        qm, rm = z3.UDiv(a, b), z3.URem(a, b)
    qneg = simp(z3.Xor(to_bool(x.neg), to_bool(y.neg))) if (is_sym(x.neg) or is_sym(y.neg)) else (x.neg != y.neg)
    return big_norm(ex, qneg, qm), big_norm(ex, x.neg, rm)


def big_divmod(ex, x, y, where):
    """Euclidean division (Go's Div/Mod): 0 <= m < |y|"""
    q, r = big_quorem(ex, x, y, where)
    rneg = r.neg
    if rneg is False:
        return q, r
    one = BigV(False, 1)
    # m < 0: if y < 0 { q++ ; m -= y } else { q-- ; m += y }
    q_adj_pos = big_add(ex, q, one, where)
    q_adj_neg = big_add(ex, q, one, where, sub=True)
    yabs = BigV(False, y.mag)
    m_adj = big_add(ex, r, yabs, where)
    if is_sym(y.neg):
        q_adj = BigV(bool_ite(y.neg, q_adj_pos.neg, q_adj_neg.neg), mag_ite(ex, y.neg, q_adj_pos.mag, q_adj_neg.mag))
    else:
        q_adj = q_adj_pos if y.neg else q_adj_neg
    if rneg is True:
        return q_adj, m_adj
    return (BigV(bool_ite(rneg, q_adj.neg, q.neg), mag_ite(ex, rneg, q_adj.mag, q.mag)),
            BigV(bool_ite(rneg, m_adj.neg, r.neg), mag_ite(ex, rneg, m_adj.mag, r.mag)))


def big_cmp(ex, x, y):
    if not any(is_sym(v) for v in (x.neg, x.mag, y.neg, y.mag)):
        a = -x.mag if x.neg else x.mag
        b = -y.mag if y.neg else y.mag
        return mask((a > b) - (a < b), 64)
    n1, n2 = to_bool(x.neg), to_bool(y.neg)
    mlt, mgt, meq = mag_lt(ex, x.mag, y.mag), mag_lt(ex, y.mag, x.mag), mag_eq(ex, x.mag, y.mag)
    lt = z3.Or(z3.And(n1, z3.Not(n2)), z3.And(z3.Not(n1), z3.Not(n2), to_bool(mlt)), z3.And(n1, n2, to_bool(mgt)))
    eq = z3.And(n1 == n2, to_bool(meq))
    if ex.intmode:
        return z3.If(eq, z3.IntVal(0), z3.If(lt, z3.IntVal(2 ** 64 - 1), z3.IntVal(1)))
    return simp(z3.If(eq, z3.BitVecVal(0, 64), z3.If(lt, z3.BitVecVal(mask(-1, 64), 64), z3.BitVecVal(1, 64))))


def big_bytelen(ex, mag):
    """number of significant bytes of a W-bit magnitude, as BV64"""
    W = ex.bigw
    r = z3.BitVecVal(W // 8, 64)
    for k in range(W // 8 - 1, -1, -1):
        r = z3.If(z3.ULT(mag, z3.BitVecVal(256 ** k, W)), z3.BitVecVal(k, 64), r)
    return r


def big_bitlen(ex, mag):
    W = ex.bigw
    r = z3.BitVecVal(W, 64)
    for k in range(W - 1, -1, -1):
        r = z3.If(z3.ULT(mag, z3.BitVecVal(1 << k, W)), z3.BitVecVal(k, 64), r)
    return r


@prefix_intrinsic('math/big.', '(*math/big.Int).')
def _big(ex, fname, args, ins, where):
    W = ex.bigw
    if fname == 'math/big.NewInt':
        return big_new(ex, big_from_int64(ex, args[0]))
    if not fname.startswith('(*math/big.Int).'):
        return NotImplemented
    m = fname[len('(*math/big.Int).'):]
    z = args[0]
    if m == 'Set':
        return big_set(ex, z, big_get(ex, args[1], where), where)
    if m == 'SetInt64':
        return big_set(ex, z, big_from_int64(ex, args[1]), where)
    if m == 'SetUint64':
        return big_set(ex, z, big_from_uint64(ex, args[1]), where)
    if m == 'SetBytes':
        els = ex.slice_elems(args[1])
        if all(not is_sym(b) for b in els):
            return big_set(ex, z, BigV(False, int.from_bytes(bytes(els), 'big')), where)
        if ex.intmode:
            v = z3.IntVal(0)
            for b in els:
                v = v * 256 + ex.ib(b)
            return big_set(ex, z, BigV(False, v), where)
        if 8 * len(els) > W:
            raise Unsupported('SetBytes of %d bytes exceeds big.Int width %d' % (len(els), W))
        v = bytes_to_bv(els)
        if v.size() < W:
            v = z3.ZeroExt(W - v.size(), v)
        return big_set(ex, z, big_norm(ex, False, v), where)
    if m == 'SetBit':
        x = big_get(ex, args[1], where)
        i, b = args[2], args[3]
        if is_sym(x.mag) or is_sym(i) or is_sym(b) or x.neg:
            raise Unsupported('symbolic SetBit')
        mg = (x.mag | (1 << i)) if b else (x.mag & ~(1 << i))
        return big_set(ex, z, big_norm(ex, x.neg, mg), where)
    if m == 'SetString':
        s, base = args[1], args[2]
        if not isinstance(s, bytes):
            raise Unsupported('SetString symbolic')
        try:
            v = int(s.decode(), base if base else 0)
        except ValueError:
            return [NIL, False]
        big_set(ex, z, BigV(v < 0, abs(v)), where)
        return [z, True]
    if m in ('Lsh', 'Rsh'):
        x = big_get(ex, args[1], where)
        sh = args[2]
        if not is_sym(sh) and not is_sym(x.mag):
            mg = (x.mag << sh) if m == 'Lsh' else (x.mag >> sh)
            if m == 'Rsh' and x.neg:
                raise Unsupported('Rsh of negative big.Int')
            return big_set(ex, z, big_norm(ex, x.neg, mg), where)
        if (is_sym(x.neg) or x.neg) and m == 'Rsh':
            # Go: Rsh of a negative value is an arithmetic shift (rounds towards -inf):
            #   -(((|x| - 1) >> s) + 1)
            if ex.branch(x.neg, 'Rsh sign'):
                one = BigV(False, 1)
                xm1 = big_add(ex, BigV(False, x.mag), one, where, sub=True)
                tmp = big_new(ex, xm1)
                _big(ex, '(*math/big.Int).Rsh', [tmp, tmp, sh], ins, where)
                r = big_add(ex, big_get(ex, tmp, where), one, where)
                return big_set(ex, z, big_norm(ex, True, r.mag), where)
            x = BigV(False, x.mag)
        if ex.intmode:
            if is_sym(sh):
                k = ex.unique_value(sh)
                if k is None:
                    p2 = z3.ToInt(z3.IntVal(2) ** sh)
                    mg = ex.ib(x.mag) * p2 if m == 'Lsh' else ex.ib(x.mag) / p2
                    return big_set(ex, z, big_norm(ex, x.neg, mg), where)
                sh = k
            mg = ex.ib(x.mag) * (2 ** sh) if m == 'Lsh' else ex.ib(x.mag) / (2 ** sh)
            return big_set(ex, z, big_norm(ex, x.neg, mg), where)
        mag = mag_bv(ex, x.mag)
        if is_sym(sh):
            shw = z3.ZeroExt(W - 64, sh) if W > 64 else z3.Extract(W - 1, 0, sh)
            if m == 'Lsh':
                r = mag << shw
                big_overflow_ok(ex, z3.And(z3.ULT(sh, W), z3.LShR(r, shw) == mag), 'Lsh', where)
            else:
                r = z3.If(z3.UGE(sh, W), z3.BitVecVal(0, W), z3.LShR(mag, shw))
        else:
            if m == 'Lsh':
                if sh >= W:
                    big_overflow_ok(ex, mag == 0, 'Lsh', where)
                    r = z3.BitVecVal(0, W)
                else:
                    r = mag << sh
                    big_overflow_ok(ex, z3.LShR(r, sh) == mag, 'Lsh', where)
            else:
                r = z3.BitVecVal(0, W) if sh >= W else z3.LShR(mag, sh)
        return big_set(ex, z, big_norm(ex, x.neg, r), where)
    if m == 'Neg':
        x = big_get(ex, args[1], where)
        return big_set(ex, z, big_norm(ex, ex.neg(x.neg), x.mag), where)
    if m == 'Abs':
        x = big_get(ex, args[1], where)
        return big_set(ex, z, BigV(False, x.mag), where)
    if m == 'Sign':
        x = big_get(ex, z, where)
        if not is_sym(x.mag) and not is_sym(x.neg):
            return 0 if x.mag == 0 else (mask(-1, 64) if x.neg else 1)
        if ex.intmode:
            return z3.If(ex.ib(x.mag) == 0, z3.IntVal(0), z3.If(to_bool(x.neg), z3.IntVal(2 ** 64 - 1), z3.IntVal(1)))
        mz = (mag_bv(ex, x.mag) == 0)
        return simp(z3.If(mz, z3.BitVecVal(0, 64), z3.If(to_bool(x.neg), z3.BitVecVal(mask(-1, 64), 64), z3.BitVecVal(1, 64))))
    if m == 'Cmp':
        return big_cmp(ex, big_get(ex, z, where), big_get(ex, args[1], where))
    if m == 'CmpAbs':
        x, y = big_get(ex, z, where), big_get(ex, args[1], where)
        return big_cmp(ex, BigV(False, x.mag), BigV(False, y.mag))
    if m in ('Add', 'Sub'):
        x, y = big_get(ex, args[1], where), big_get(ex, args[2], where)
        return big_set(ex, z, big_add(ex, x, y, where, sub=(m == 'Sub')), where)
    if m == 'Mul':
        x, y = big_get(ex, args[1], where), big_get(ex, args[2], where)
        return big_set(ex, z, big_mul(ex, x, y, where), where)
    if m in ('Quo', 'Rem'):
        x, y = big_get(ex, args[1], where), big_get(ex, args[2], where)
        q, r = big_quorem(ex, x, y, where)
        return big_set(ex, z, q if m == 'Quo' else r, where)
    if m in ('Div', 'Mod'):
        x, y = big_get(ex, args[1], where), big_get(ex, args[2], where)
        q, r = big_divmod(ex, x, y, where)
        return big_set(ex, z, q if m == 'Div' else r, where)
    if m == 'DivMod':
        x, y = big_get(ex, args[1], where), big_get(ex, args[2], where)
        q, r = big_divmod(ex, x, y, where)
        big_set(ex, args[3], r, where)
        big_set(ex, z, q, where)
        return [z, args[3]]
    if m == 'QuoRem':
        x, y = big_get(ex, args[1], where), big_get(ex, args[2], where)
        q, r = big_quorem(ex, x, y, where)
        big_set(ex, args[3], r, where)
        big_set(ex, z, q, where)
        return [z, args[3]]
    if m == 'Exp':
        x, y = big_get(ex, args[1], where), big_get(ex, args[2], where)
        mod = args[3]
        if is_sym(x.mag) or is_sym(y.mag) or mod is not NIL:
            raise Unsupported('symbolic big.Exp')
        v = (-x.mag if x.neg else x.mag) ** y.mag
        return big_set(ex, z, BigV(v < 0, abs(v)), where)
    if m == 'Bytes':
        x = big_get(ex, z, where)
        if not is_sym(x.mag):
            b = x.mag.to_bytes((x.mag.bit_length() + 7) // 8, 'big')
            return ex.mkslice(list(b)) if b else NIL
        if ex.intmode:
            raise Unsupported('int-mode big.Bytes')
        L = ex.concretize(big_bytelen(ex, x.mag), 'big.Bytes length', W // 8 + 1)
        els = [simp(z3.Extract(8 * (L - i) - 1, 8 * (L - i - 1), x.mag)) for i in range(L)]
        return ex.mkslice(els) if L else NIL
    if m == 'FillBytes':
        x = big_get(ex, z, where)
        buf = args[1]
        n = buf.len
        if not is_sym(x.mag):
            if x.mag >> (8 * n):
                raise PathEnd('panic', 'math/big: buffer too small to fit value')
            ex.set_slice_elems(buf, 0, list(x.mag.to_bytes(n, 'big')))
            return buf
        if ex.intmode:
            raise Unsupported('int-mode FillBytes')
        if 8 * n < W:
            fits = z3.LShR(x.mag, 8 * n) == 0
            if not ex.branch(fits, 'FillBytes fits'):
                raise PathEnd('panic', 'math/big: buffer too small to fit value')
        mg = x.mag if 8 * n <= W else z3.ZeroExt(8 * n - W, x.mag)
        ex.set_slice_elems(buf, 0, [simp(z3.Extract(8 * (n - i) - 1, 8 * (n - i - 1), mg)) for i in range(n)])
        return buf
    if m == 'Bits':
        x = big_get(ex, z, where)
        if not is_sym(x.mag):
            words = []
            v = x.mag
            while v:
                words.append(v & (2 ** 64 - 1))
                v >>= 64
            return ex.mkslice(words) if words else NIL
        if ex.intmode:
            raise Unsupported('int-mode big.Bits')
        L = ex.concretize(z3.LShR(big_bytelen(ex, x.mag) + 7, 3), 'big.Bits length', W // 64 + 1)
        return ex.mkslice([simp(z3.Extract(64 * i + 63, 64 * i, x.mag)) for i in range(L)]) if L else NIL
    if m == 'BitLen':
        x = big_get(ex, z, where)
        if not is_sym(x.mag):
            return x.mag.bit_length()
        if ex.intmode:
            raise Unsupported('int-mode BitLen')
        return simp(big_bitlen(ex, x.mag))
    if m == 'Bit':
        x = big_get(ex, z, where)
        i = args[1]
        if is_sym(i) or x.neg is not False:
            raise Unsupported('symbolic big.Bit index')
        if not is_sym(x.mag):
            return (x.mag >> i) & 1
        return z3.ZeroExt(63, z3.Extract(i, i, x.mag)) if i < W else 0
    if m in ('Int64', 'Uint64'):
        x = big_get(ex, z, where)
        if not is_sym(x.mag) and not is_sym(x.neg):
            v = x.mag & (2 ** 64 - 1)
            return mask(-v, 64) if x.neg else v
        if ex.intmode:
            lo = ex.ib(x.mag) % (2 ** 64)
            return z3.If(to_bool(x.neg), (2 ** 64 - lo) % (2 ** 64), lo)
        lo = z3.Extract(63, 0, mag_bv(ex, x.mag))
        return simp(z3.If(to_bool(x.neg), -lo, lo))
    if m == 'IsInt64':
        x = big_get(ex, z, where)
        if not is_sym(x.mag) and not is_sym(x.neg):
            v = -x.mag if x.neg else x.mag
            return -(2 ** 63) <= v < 2 ** 63
        if ex.intmode:
            mg = ex.ib(x.mag)
            return z3.If(to_bool(x.neg), mg <= 2 ** 63, mg < 2 ** 63)
        mg = mag_bv(ex, x.mag)
        return simp(z3.If(to_bool(x.neg), z3.ULE(mg, z3.BitVecVal(2 ** 63, W)), z3.ULT(mg, z3.BitVecVal(2 ** 63, W))))
    if m == 'IsUint64':
        x = big_get(ex, z, where)
        if not is_sym(x.mag) and not is_sym(x.neg):
            return (not x.neg) and x.mag < 2 ** 64
        if ex.intmode:
            return z3.And(z3.Not(to_bool(x.neg)), ex.ib(x.mag) < 2 ** 64)
        mg = mag_bv(ex, x.mag)
        return simp(z3.And(z3.Not(to_bool(x.neg)), z3.ULT(mg, z3.BitVecVal(2 ** 64, W))))
    if m in ('String', 'Text'):
        return Opaque('big.Int text')
    if m in ('And', 'Or', 'Xor'):
        x, y = big_get(ex, args[1], where), big_get(ex, args[2], where)
        if (x.neg is not False) or (y.neg is not False):
            raise Unsupported('bitwise op on negative big.Int')
        if not is_sym(x.mag) and not is_sym(y.mag):
            r = {'And': x.mag & y.mag, 'Or': x.mag | y.mag, 'Xor': x.mag ^ y.mag}[m]
        else:
            a, b = mag_bv(ex, x.mag), mag_bv(ex, y.mag)
            r = {'And': a & b, 'Or': a | b, 'Xor': a ^ b}[m]
        return big_set(ex, z, big_norm(ex, False, r), where)
    return NotImplemented


# ------------------------------------------------------------------ time
ZERO_TIME_SEC = mask(-62135596800, 64)


@intrinsic('time.Now')
def _time_now(ex, args, ins, where):
    s = ex.fresh('time.Now.sec', 64)
    ns = ex.fresh('time.Now.nsec', 32)
    if is_sym(s):
        ex.add(z3.And(s >= 0, s < (1 << 40)))
        if z3.is_bv(ns):
            ex.add(z3.ULT(ns, 1000000000))
            ns = z3.ZeroExt(32, ns)
        else:   # integer back end
            ex.add(z3.And(ns >= 0, ns < 1000000000))
    return TimeV(s, ns)


@intrinsic('time.Unix')
def _time_unix(ex, args, ins, where):
    sec, nsec = args
    if is_sym(nsec):
        if not ex.branch(z3.And(nsec >= 0, nsec < 1000000000), 'time.Unix nsec range'):
            raise Unsupported('time.Unix with nsec out of range')
    elif not (0 <= sval(nsec, 64) < 1000000000):
        raise Unsupported('time.Unix with nsec out of range')
    return TimeV(sec, nsec)


def _dur_split(ex, d):
    """duration (int64 ns, unsigned repr or BV64) -> (sec, nsec) with floor semantics"""
    if not is_sym(d):
        v = sval(d, 64)
        return mask(v // 1000000000, 64), v % 1000000000
    q = d / z3.BitVecVal(1000000000, 64)        # signed truncated division
    r = z3.SRem(d, z3.BitVecVal(1000000000, 64))
    neg = r < 0
    return z3.If(neg, q - 1, q), z3.If(neg, r + 1000000000, r)


@intrinsic('(time.Duration).Nanoseconds')
def _dur_ns(ex, args, ins, where):
    return args[0]


@prefix_intrinsic('(time.Time).', '(*time.Time).', 'time.')
def _time(ex, fname, args, ins, where):
    if fname.startswith('(time.Time).'):
        m = fname[len('(time.Time).'):]
        t = args[0]
    elif fname.startswith('(*time.Time).'):
        m = fname[len('(*time.Time).'):]
        t = ex.load(args[0], where, None)
    else:
        if fname == 'time.Since':   # == time.Now().Sub(t), with the same arbitrary clock as time.Now
            now = _time_now(ex, [], ins, where)
            u = args[0]
            if not isinstance(u, TimeV):
                raise Unsupported('time.Since of %r' % (u,))
            i64 = ex.t_int64
            ds = ex.binop('-', now.sec, u.sec, i64, i64, i64)
            dn = ex.binop('-', now.nsec, u.nsec, i64, i64, i64)
            return ex.binop('+', ex.binop('*', ds, 1000000000, i64, i64, i64), dn, i64, i64, i64)
        if fname == '(time.Duration).Nanoseconds':
            return args[0]
        if fname in ('(time.Duration).Seconds',):
            raise Unsupported('Duration.Seconds (float)')
        return NotImplemented
    if not isinstance(t, TimeV):
        raise Unsupported('time value %r' % (t,))
    i64 = ex.t_int64
    if m == 'Unix':
        return t.sec
    if m == 'UnixNano':
        return ex.binop('+', ex.binop('*', t.sec, 1000000000, i64, i64, i64), t.nsec, i64, i64, i64)
    if m == 'Nanosecond':
        return t.nsec
    if m in ('Before', 'After', 'Equal', 'Compare'):
        u = args[1]
        a, b = (t, u) if m != 'After' else (u, t)
        sl = ex.binop('<', a.sec, b.sec, None, i64, i64)
        se = ex.equal(a.sec, b.sec, i64)
        nl = ex.binop('<', a.nsec, b.nsec, None, i64, i64)
        ne = ex.equal(a.nsec, b.nsec, i64)
        if m == 'Equal':
            r = ex.conj(se, ne)
            return simp(r) if is_sym(r) else r
        lt = ex.disj(sl, ex.conj(se, nl))
        if m == 'Compare':
            raise Unsupported('Time.Compare')
        return simp(lt) if is_sym(lt) else lt
    if m == 'IsZero':
        r = ex.conj(ex.equal(t.sec, ZERO_TIME_SEC, i64), ex.equal(t.nsec, 0, i64))
        return simp(r) if is_sym(r) else r
    if m == 'Add':
        ds, dn = _dur_split(ex, args[1])
        ns = ex.binop('+', t.nsec, dn, i64, i64, i64)
        carry = ex.binop('>=', ns, 1000000000, None, i64, i64)
        if is_sym(carry):
            ns2 = z3.If(carry, to_bv(ns, 64) - 1000000000, to_bv(ns, 64))
            sec = to_bv(t.sec, 64) + to_bv(ds, 64) + z3.If(carry, z3.BitVecVal(1, 64), z3.BitVecVal(0, 64))
            return TimeV(simp(sec), simp(ns2))
        sec = ex.binop('+', t.sec, ds, i64, i64, i64)
        if carry:
            return TimeV(ex.binop('+', sec, 1, i64, i64, i64), ns - 1000000000)
        return TimeV(sec, ns)
    if m == 'Sub':
        u = args[1]
        # saturating in Go; the harnesses keep |difference| far below 292 years, so plain arithmetic
        ds = ex.binop('-', t.sec, u.sec, i64, i64, i64)
        dn = ex.binop('-', t.nsec, u.nsec, i64, i64, i64)
        return ex.binop('+', ex.binop('*', ds, 1000000000, i64, i64, i64), dn, i64, i64, i64)
    if m in ('UTC', 'Local', 'Round', 'In'):
        if m == 'Round':
            raise Unsupported('Time.Round')
        return t
    if m == 'Truncate':
        d = args[1]
        if not is_sym(d) and d == 1000000000:
            return TimeV(t.sec, 0)
        raise Unsupported('Time.Truncate with non-second duration')
    if m in ('String', 'Format'):
        return Opaque('time text')
    return NotImplemented


# ------------------------------------------------------------------ sort
@intrinsic('sort.Sort', 'sort.Stable')
def _sort_sort(ex, args, ins, where):
    data = args[0]
    n = ex.invoke(data, 'Len', [], ins, where, 10)
    if is_sym(n):
        n = ex.concretize(n, 'sort length', 64)
    # odd-even transposition network: n rounds of compare-exchange through Less/Swap
    T = ex.T
    direct = isinstance(data.v, SliceV) and T.kind(data.t) == 'slice' and T.kind(T.elem(data.t)) in ('int', 'bool')
    for rnd in range(n):
        for i in range(rnd % 2, n - 1, 2):
            less = ex.invoke(data, 'Less', [i + 1, i], ins, where, 10)
            if direct and is_sym(less):
                # the sorter is a named slice of scalars: Swap(i,j) exchanges elements i and j, so the
                # compare-exchange is an if-then-else on the two elements (no path fork)
                et = T.elem(data.t)
                els = ex.slice_elems(data.v)
                a, b = els[i], els[i + 1]
                ex.set_slice_elems(data.v, i, [ex.ite_t(less, b, a, et), ex.ite_t(less, a, b, et)])
                continue
            if ex.branch(less, 'sort compare'):
                ex.invoke(data, 'Swap', [i, i + 1], ins, where, 10)
    return None


@intrinsic('sort.Slice', 'sort.SliceStable')
def _sort_slice(ex, args, ins, where):
    x, less = args
    if not isinstance(x, Iface) or not isinstance(x.v, SliceV):
        if x is NIL or x.v is NIL:
            return None
        raise Unsupported('sort.Slice argument')
    s = x.v
    n = s.len
    et = ex.T.elem(x.t)
    for rnd in range(n):
        for i in range(rnd % 2, n - 1, 2):
            lt = ex.call_value(less, [i + 1, i], ins, where, 10)
            els = ex.slice_elems(s)
            a, b = els[i], els[i + 1]
            if is_sym(lt):
                try:
                    na, nb = ex.ite_t(lt, b, a, et), ex.ite_t(lt, a, b, et)
                    if isinstance(na, Opaque) or isinstance(nb, Opaque):
                        raise Unsupported('x')
                    ex.set_slice_elems(s, i, [na, nb])
                    continue
                except Unsupported:
                    pass
            if ex.branch(lt, 'sort compare'):
                ex.set_slice_elems(s, i, [b, a])
    return None
