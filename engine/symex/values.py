"""Value representations shared by the symbolic executor and its intrinsics."""
import z3


class Unsupported(Exception):
    """The harness reached something the encoder cannot express; the harness is
    reported as undecidable (never as a pass)."""


class PathEnd(Exception):
    def __init__(self, kind, info=None):
        Exception.__init__(self, kind, info)
        self.kind, self.info = kind, info


class SpecFail(Exception):
    """Speculative (if-conversion) evaluation met something with a side effect."""


def mask(v, w):
    return v & ((1 << w) - 1)


def is_sym(v):
    return isinstance(v, z3.ExprRef)


def to_bv(v, w):
    return v if isinstance(v, z3.ExprRef) else z3.BitVecVal(v, w)


def sval(v, w):
    """concrete unsigned representation -> signed value"""
    return v - (1 << w) if v >> (w - 1) else v


def to_bool(v):
    return v if isinstance(v, z3.ExprRef) else z3.BoolVal(bool(v))


def simp(v):
    """simplify a term; return a Python constant when it folds to one"""
    if not isinstance(v, z3.ExprRef):
        return v
    v = z3.simplify(v)
    if z3.is_bv_value(v):
        return v.as_long()
    if z3.is_true(v):
        return True
    if z3.is_false(v):
        return False
    if z3.is_int_value(v):
        return v.as_long()
    return v


class Ptr:
    __slots__ = ('obj', 'path')

    def __init__(self, obj, path=()):
        self.obj, self.path = obj, path

    def __repr__(self):
        return 'Ptr(%r,%r)' % (self.obj, self.path)


class SliceV:
    """obj: heap object; base: path to the backing array inside obj; off/len/cap concrete ints"""
    __slots__ = ('obj', 'base', 'off', 'len', 'cap')

    def __init__(self, obj, base, off, ln, cap):
        self.obj, self.base, self.off, self.len, self.cap = obj, base, off, ln, cap

    def __repr__(self):
        return 'Slice(obj=%r,base=%r,off=%r,len=%r,cap=%r)' % (self.obj, self.base, self.off, self.len, self.cap)


class Iface:
    __slots__ = ('t', 'v')

    def __init__(self, t, v):
        self.t, self.v = t, v

    def __repr__(self):
        return 'Iface(%r,%r)' % (self.t, self.v)


class Closure:
    __slots__ = ('fn', 'bind')

    def __init__(self, fn, bind):
        self.fn, self.bind = fn, bind

    def __repr__(self):
        return 'Closure(%s)' % self.fn


class MapRef:
    """reference to a heap object holding a MapV"""
    __slots__ = ('obj',)

    def __init__(self, obj):
        self.obj = obj


class MapV:
    """immutable association list: tuple of (key, value); insertion order"""
    __slots__ = ('entries', 'kt', 'vt')

    def __init__(self, entries, kt, vt):
        self.entries, self.kt, self.vt = entries, kt, vt


class MapIter:
    __slots__ = ('entries', 'pos', 'kt', 'vt')

    def __init__(self, entries, kt, vt):
        self.entries, self.pos, self.kt, self.vt = entries, 0, kt, vt


class StrIter:
    __slots__ = ('s', 'pos')

    def __init__(self, s):
        self.s, self.pos = s, 0


class StrV:
    """string with concrete length and at least one symbolic byte"""
    __slots__ = ('b',)

    def __init__(self, b):
        self.b = tuple(b)

    def __len__(self):
        return len(self.b)


def mkstr(bs):
    bs = [simp(x) for x in bs]
    if all(isinstance(x, int) for x in bs):
        return bytes(bs)
    return StrV(bs)


def str_bytes(s):
    if isinstance(s, (bytes, bytearray)):
        return list(s)
    if isinstance(s, StrV):
        return list(s.b)
    raise Unsupported('string value %r' % (s,))


class BigV:
    """math/big.Int value: neg (bool / z3 Bool), mag (Python int / z3 BitVec(W) / z3 Int)"""
    __slots__ = ('neg', 'mag')

    def __init__(self, neg, mag):
        self.neg, self.mag = neg, mag

    def __repr__(self):
        return 'Big(%r,%r)' % (self.neg, self.mag)


class TimeV:
    """time.Time: unix seconds (int64 as unsigned repr / BV64), nanos concrete-or-BV in [0,1e9)"""
    __slots__ = ('sec', 'nsec')

    def __init__(self, sec, nsec=0):
        self.sec, self.nsec = sec, nsec


class ChanV:
    __slots__ = ('obj',)

    def __init__(self, obj):
        self.obj = obj


class SparseArr:
    """large array of scalars: default value plus a dict of written elements (copy-on-write by copy())"""
    __slots__ = ('n', 'default', 'd')

    def __init__(self, n, default, d=None):
        self.n, self.default, self.d = n, default, d or {}

    def __len__(self):
        return self.n

    def __getitem__(self, i):
        if isinstance(i, slice):
            a, b, st = i.indices(self.n)
            if b - a > (1 << 20):
                raise Unsupported('materialising a huge slice of a sparse array')
            d, df = self.d, self.default
            return [d.get(k, df) for k in range(a, b, st)]
        if i < 0 or i >= self.n:
            raise IndexError(i)
        return self.d.get(i, self.default)

    def __setitem__(self, i, v):
        if isinstance(i, slice):
            a, b, st = i.indices(self.n)
            v = list(v)
            if len(v) != b - a or st != 1:
                raise Unsupported('resizing slice assignment on sparse array')
            for k, x in zip(range(a, b), v):
                self.d[k] = x
            return
        self.d[i] = v

    def copy(self):
        return SparseArr(self.n, self.default, dict(self.d))

    def __iter__(self):
        raise Unsupported('iteration over a sparse (huge) array')


def arr_copy(a):
    return a.copy() if isinstance(a, SparseArr) else list(a)


class Opaque:
    def __init__(self, what):
        self.what = what

    def __repr__(self):
        return '<opaque %s>' % self.what


NIL = None
