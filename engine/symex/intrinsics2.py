"""further intrinsics (added per property)"""
import z3
from values import *  # noqa
from core import INTRINSICS, intrinsic, prefix_intrinsic, Exec, SymIdx
from intrinsics import harness, HARNESS, uf_hash, opaque_err, bytes_to_bv


# ------------------------------------------------------------------ secp256k1 (curve arithmetic is outside the encoder)
def _pubkey_valid(b):
    """secp256k1.ParsePubKey acceptance for concrete bytes"""
    P = 0xFFFFFFFFFFFFFFFFFFFFFFFFFFFFFFFFFFFFFFFFFFFFFFFFFFFFFFFEFFFFFC2F
    if len(b) == 33 and b[0] in (2, 3):
        x = int.from_bytes(b[1:], 'big')
        if x >= P:
            return False
        y2 = (pow(x, 3, P) + 7) % P
        return pow(y2, (P - 1) // 2, P) in (0, 1) and (y2 == 0 or pow(y2, (P - 1) // 2, P) == 1)
    if len(b) == 65 and b[0] in (4, 6, 7):
        x = int.from_bytes(b[1:33], 'big')
        y = int.from_bytes(b[33:], 'big')
        if x >= P or y >= P:
            return False
        if (y * y - pow(x, 3, P) - 7) % P != 0:
            return False
        if b[0] in (6, 7) and (y & 1) != (b[0] & 1):
            return False
        return True
    return False


@intrinsic('github.com/decred/dcrd/dcrec/secp256k1/v4.ParsePubKey')
def _parse_pubkey(ex, args, ins, where):
    """validity of a serialized public key is a nondeterministic bit (curve membership needs field arithmetic)"""
    els = ex.slice_elems(args[0])
    if all(not is_sym(b) for b in els):
        ok = _pubkey_valid(bytes(els))     # concrete key bytes: decide curve membership exactly
    elif ex.pinned is not None:
        ok = ex.fresh('secp.ParsePubKey.ok', 1, boolean=True)
    else:
        # the verdict is an uninterpreted predicate of the serialized key: unknown, but the same bytes always
        # get the same verdict
        key = ('secp_parse_ok', len(els))
        f = ex.uf_cache.get(key)
        if f is None:
            f = ex.uf_cache[key] = z3.Function('secp_parse_ok_%d' % len(els), z3.BitVecSort(8 * len(els)), z3.BoolSort())
        ok = f(bytes_to_bv(els))
        ex.nondets['secp.ParsePubKey.ok#%d' % len(ex.nondets)] = ok
    ex.cut_notes.add('stub: secp256k1.ParsePubKey verdict is an uninterpreted predicate of the key bytes')
    if ex.branch(ok, 'ParsePubKey verdict'):
        return [Ptr(ex.new_obj(OpaqueKey(list(els))), ()), NIL]
    return [NIL, opaque_err('secp256k1 parse error')]


class OpaqueKey(Opaque):
    """a parsed public key: opaque to the encoder, but remembers the serialized bytes it was parsed from"""
    def __init__(self, els):
        Opaque.__init__(self, 'secp256k1.PublicKey')
        self.key = els


_GX = 0x79BE667EF9DCBBAC55A06295CE870B07029BFCDB2DCE28D959F2815B16F81798
_GY = 0x483ADA7726A3C4655DA4FBFC0E1108A8FD17B448A68554199C47D08FFB10D4B8


def _ec_add(a, b):
    P = SECP_P
    if a is None:
        return b
    if b is None:
        return a
    if a[0] == b[0]:
        if (a[1] + b[1]) % P == 0:
            return None
        lam = 3 * a[0] * a[0] * pow(2 * a[1], -1, P) % P
    else:
        lam = (b[1] - a[1]) * pow(b[0] - a[0], -1, P) % P
    x = (lam * lam - a[0] - b[0]) % P
    return (x, (lam * (a[0] - x) - a[1]) % P)


def _ec_mul(k, pt):
    r = None
    while k:
        if k & 1:
            r = _ec_add(r, pt)
        pt = _ec_add(pt, pt)
        k >>= 1
    return r


def _ec_point(b):
    """decode a serialized key already accepted by _pubkey_valid"""
    P = SECP_P
    x = int.from_bytes(bytes(b[1:33]), 'big')
    if len(b) == 33:
        y = pow((pow(x, 3, P) + 7) % P, (P + 1) // 4, P)
        if (y & 1) != (b[0] & 1):
            y = P - y
        return (x, y)
    return (x, int.from_bytes(bytes(b[33:65]), 'big'))


def _ecdsa_verify_concrete(r, s, h, keybytes):
    if not (1 <= r < SECP_N and 1 <= s < SECP_N):
        return False
    z = int.from_bytes(bytes(h[:32]), 'big')
    w = pow(s, -1, SECP_N)
    R = _ec_add(_ec_mul(z * w % SECP_N, (_GX, _GY)), _ec_mul(r * w % SECP_N, _ec_point(keybytes)))
    return R is not None and R[0] % SECP_N == r


@intrinsic('(*github.com/decred/dcrd/dcrec/secp256k1/v4/ecdsa.Signature).Verify')
def _ecdsa_verify(ex, args, ins, where):
    """ECDSA verification: exact (pure-Python curve arithmetic) when signature, digest and key are concrete;
    otherwise an uninterpreted predicate of (r, s, digest, key bytes)"""
    sp, hsl, kp = args
    if sp is NIL or kp is NIL:
        raise PathEnd('panic', 'nil signature or key in Verify ' + where)
    sig = ex.heap[sp.obj]
    key = ex.heap[kp.obj]
    if not (isinstance(sig, tuple) and sig and sig[0] == 'sig') or not isinstance(key, OpaqueKey):
        raise Unsupported('ecdsa Verify on a signature/key not built by the modelled constructors')
    r, s = sig[1], sig[2]
    h = ex.slice_elems(hsl)
    ex.cut_notes.add('stub: ecdsa.Signature.Verify exact for concrete arguments (pure-Python secp256k1), uninterpreted predicate otherwise')
    if not is_sym(r) and not is_sym(s) and all(not is_sym(b) for b in h) and all(not is_sym(b) for b in key.key):
        if len(h) != 32:
            raise Unsupported('ecdsa Verify with a digest that is not 32 bytes')
        return _ecdsa_verify_concrete(r, s, h, key.key)
    if ex.pinned is not None:
        return ex.fresh('ecdsa.Verify.ok', 1, boolean=True)
    if len(h) != 32:
        raise Unsupported('ecdsa Verify with a digest that is not 32 bytes')
    k = ('ecdsa_verify', len(key.key))
    f = ex.uf_cache.get(k)
    if f is None:
        f = ex.uf_cache[k] = z3.Function('ecdsa_verify_%d' % len(key.key), z3.BitVecSort(256), z3.BitVecSort(256),
                                         z3.BitVecSort(256), z3.BitVecSort(8 * len(key.key)), z3.BoolSort())
    ok = f(to_bv(r, 256), to_bv(s, 256), bytes_to_bv(h), bytes_to_bv(key.key))
    ex.nondets['ecdsa.Verify.ok#%d' % len(ex.nondets)] = ok
    return ok


@intrinsic('(*github.com/decred/dcrd/dcrec/secp256k1/v4.PublicKey).SerializeUncompressed',
           '(github.com/decred/dcrd/dcrec/secp256k1/v4.PublicKey).SerializeUncompressed')
def _ser_uncompressed(ex, args, ins, where):
    kb = _known_key_bytes(ex, args[0])
    if kb is not None:
        x, y = _ec_point(kb)
        return ex.mkslice([4] + list(x.to_bytes(32, 'big')) + list(y.to_bytes(32, 'big')))
    vs = [4] + [ex.fresh('secp.SerializeUncompressed', 8) for _ in range(64)]
    return ex.mkslice(vs)


def _known_key_bytes(ex, p):
    """serialized bytes of a key parsed from concrete bytes (None when unknown)"""
    if isinstance(p, Ptr):
        o = ex.heap[p.obj]
    else:
        o = p
    if isinstance(o, OpaqueKey) and all(not is_sym(b) for b in o.key):
        return list(o.key)
    return None


@intrinsic('(*github.com/decred/dcrd/dcrec/secp256k1/v4.PublicKey).SerializeCompressed',
           '(github.com/decred/dcrd/dcrec/secp256k1/v4.PublicKey).SerializeCompressed')
def _ser_compressed(ex, args, ins, where):
    kb = _known_key_bytes(ex, args[0])
    if kb is not None:
        x, y = _ec_point(kb)
        return ex.mkslice([2 + (y & 1)] + list(x.to_bytes(32, 'big')))
    b0 = ex.fresh('secp.SerializeCompressed', 8)
    if is_sym(b0):
        ex.add(z3.Or(b0 == 2, b0 == 3))
    vs = [b0] + [ex.fresh('secp.SerializeCompressed', 8) for _ in range(32)]
    return ex.mkslice(vs)


# ------------------------------------------------------------------ strings.Builder / strings helpers
def _sb_buf(ex, p, where):
    st = ex.load(p, where, None)
    return st[1]


def _sb_set(ex, p, sl):
    ex.heap[p.obj] = ex._replace(ex.heap[p.obj], p.path + (1,), sl)


@prefix_intrinsic('(*strings.Builder).')
def _strings_builder(ex, fname, args, ins, where):
    m = fname[len('(*strings.Builder).'):]
    p = args[0]
    if p is NIL:
        raise PathEnd('panic', 'nil *strings.Builder ' + where)
    buf = _sb_buf(ex, p, where)
    cur = ex.slice_elems(buf) if buf is not NIL else []
    if m == 'Grow':
        return None
    if m == 'WriteByte':
        _sb_set(ex, p, ex.mkslice(cur + [args[1]]))
        return NIL
    if m == 'WriteString':
        s = args[1]
        if isinstance(s, Opaque):
            raise Unsupported('Builder.WriteString(opaque)')
        bs = str_bytes(s)
        _sb_set(ex, p, ex.mkslice(cur + bs))
        return [len(bs), NIL]
    if m == 'Write':
        bs = ex.slice_elems(args[1])
        _sb_set(ex, p, ex.mkslice(cur + bs))
        return [len(bs), NIL]
    if m == 'WriteRune':
        r = args[1]
        if is_sym(r) or r >= 0x80:
            raise Unsupported('Builder.WriteRune non-ASCII')
        _sb_set(ex, p, ex.mkslice(cur + [r]))
        return [1, NIL]
    if m == 'String':
        return mkstr(cur)
    if m == 'Len':
        return len(cur)
    if m == 'Reset':
        _sb_set(ex, p, NIL)
        return None
    return NotImplemented


def _index_byte_merged(ex, hay, c):
    """IndexByte over a haystack with a symbolic needle: one ite chain when the haystack is concrete"""
    if all(not is_sym(b) for b in hay) and is_sym(c):
        r = z3.BitVecVal(mask(-1, 64), 64)
        for i in range(len(hay) - 1, -1, -1):
            r = z3.If(c == z3.BitVecVal(hay[i], 8), z3.BitVecVal(i, 64), r)
        return r
    for i, b in enumerate(hay):
        if ex.branch(ex.equal(b, c, ex.t_uint8), 'IndexByte'):
            return i
    return mask(-1, 64)


@intrinsic('strings.IndexByte', 'internal/bytealg.IndexByteString')
def _sindexbyte2(ex, args, ins, where):
    return _index_byte_merged(ex, str_bytes(args[0]), args[1])


@intrinsic('bytes.IndexByte', 'internal/bytealg.IndexByte')
def _bindexbyte2(ex, args, ins, where):
    return _index_byte_merged(ex, ex.slice_elems(args[0]), args[1])


# ------------------------------------------------------------------ ChaCha20 (key stream = uninterpreted function of key, nonce, position)
def _chacha_block(key, counter, nonce):
    def rotl(v, c):
        return ((v << c) & 0xffffffff) | (v >> (32 - c))

    def qr(s, a, b, c, d):
        s[a] = (s[a] + s[b]) & 0xffffffff; s[d] = rotl(s[d] ^ s[a], 16)
        s[c] = (s[c] + s[d]) & 0xffffffff; s[b] = rotl(s[b] ^ s[c], 12)
        s[a] = (s[a] + s[b]) & 0xffffffff; s[d] = rotl(s[d] ^ s[a], 8)
        s[c] = (s[c] + s[d]) & 0xffffffff; s[b] = rotl(s[b] ^ s[c], 7)
    import struct as _st
    st = [0x61707865, 0x3320646e, 0x79622d32, 0x6b206574] + list(_st.unpack('<8I', key)) + [counter] + list(_st.unpack('<3I', nonce))
    w = list(st)
    for _ in range(10):
        qr(w, 0, 4, 8, 12); qr(w, 1, 5, 9, 13); qr(w, 2, 6, 10, 14); qr(w, 3, 7, 11, 15)
        qr(w, 0, 5, 10, 15); qr(w, 1, 6, 11, 12); qr(w, 2, 7, 8, 13); qr(w, 3, 4, 9, 14)
    return _st.pack('<16I', *[(a + b) & 0xffffffff for a, b in zip(w, st)])


@intrinsic('golang.org/x/crypto/chacha20.NewUnauthenticatedCipher')
def _chacha_new(ex, args, ins, where):
    key, nonce = ex.slice_elems(args[0]), ex.slice_elems(args[1])
    if len(key) != 32:
        return [NIL, opaque_err('chacha20: wrong key size')]
    if len(nonce) != 12:
        if len(nonce) == 24:
            raise Unsupported('XChaCha20')
        return [NIL, opaque_err('chacha20: wrong nonce size')]
    return [Ptr(ex.new_obj(('chacha', tuple(key), tuple(nonce), 0)), ()), NIL]


@intrinsic('(*golang.org/x/crypto/chacha20.Cipher).XORKeyStream')
def _chacha_xor(ex, args, ins, where):
    p, dst, src = args
    _, key, nonce, off = ex.heap[p.obj]
    s = ex.slice_elems(src)
    if dst is NIL or dst.len < len(s):
        if s:
            raise PathEnd('panic', 'chacha20: output smaller than input ' + where)
    out = []
    conc = all(not is_sym(b) for b in key + nonce)
    for i, b in enumerate(s):
        pos = off + i
        if conc:
            blk = _chacha_block(bytes(key), pos // 64, bytes(nonce))
            ks = blk[pos % 64]
        else:
            f = ex.uf_cache.get('chacha_ks')
            if f is None:
                f = ex.uf_cache['chacha_ks'] = z3.Function('chacha20_keystream', z3.BitVecSort(256), z3.BitVecSort(96),
                                                           z3.BitVecSort(64), z3.BitVecSort(8))
            ks = f(bytes_to_bv(list(key)), bytes_to_bv(list(nonce)), z3.BitVecVal(pos, 64))
            ex.cut_notes.add('stub: ChaCha20 key stream is an uninterpreted function of (key, nonce, position)')
        if is_sym(ks) or is_sym(b):
            out.append(simp(to_bv(ks, 8) ^ to_bv(b, 8)))
        else:
            out.append(ks ^ b)
    if s:
        ex.set_slice_elems(dst, 0, out)
    ex.heap[p.obj] = ('chacha', key, nonce, off + len(s))
    return None


# ------------------------------------------------------------------ encoding/binary.Write / Read for integer kinds (reflection-free model)
def _order_name(ex, order):
    if not isinstance(order, Iface):
        raise Unsupported('binary byte order value')
    s = ex.T.canon(order.t)
    if 'littleEndian' in s:
        return 'little'
    if 'bigEndian' in s:
        return 'big'
    raise Unsupported('byte order ' + s)


@intrinsic('encoding/binary.Write')
def _binary_write(ex, args, ins, where):
    w, order, data = args
    endian = _order_name(ex, order)
    if not isinstance(data, Iface):
        raise Unsupported('binary.Write data')
    T = ex.T
    t, v = data.t, data.v
    if T.kind(t) == 'ptr':
        t = T.elem(t)
        v = ex.load(v, where, t)
    k = T.kind(t)
    if k == 'int':
        n = T.width(t) // 8
        bs = []
        for i in range(n):
            if is_sym(v):
                bs.append(simp(z3.Extract(8 * i + 7, 8 * i, v)))
            else:
                bs.append((v >> (8 * i)) & 0xff)
        if endian == 'big':
            bs.reverse()
    elif k == 'bool':
        bs = [ex.ite_t(v, 1, 0, ex.t_uint8) if is_sym(v) else (1 if v else 0)]
    elif k == 'slice' and T.kind(T.elem(t)) == 'int' and T.width(T.elem(t)) == 8:
        bs = ex.slice_elems(v)
    elif k == 'array' and T.kind(T.elem(t)) == 'int' and T.width(T.elem(t)) == 8:
        bs = list(v)
    else:
        raise Unsupported('binary.Write of ' + T.tab[t]['str'])
    r = ex.invoke(w, 'Write', [ex.mkslice(bs)], ins, where, 10)
    return r[1]


# ------------------------------------------------------------------ randomness: arbitrary values of the documented range
@intrinsic('math/rand.Int', 'math/rand.Int63')
def _rand_int(ex, args, ins, where):
    v = ex.fresh('rand.Int', 64)
    if is_sym(v):
        ex.add(v >= 0)
        return v
    return v & ((1 << 63) - 1)


@intrinsic('math/rand.Seed')
def _rand_seed(ex, args, ins, where):
    return None


@intrinsic('math/rand.Intn')
def _rand_intn(ex, args, ins, where):
    n = args[0]
    v = ex.fresh('rand.Intn', 64)
    if is_sym(v):
        ex.add(z3.And(v >= 0, v < to_bv(n, 64)))
        return v
    return v % n if n else 0


@intrinsic('math/rand.Uint32')
def _rand_u32(ex, args, ins, where):
    return ex.fresh('rand.Uint32', 32)


@intrinsic('math/rand.Uint64')
def _rand_u64(ex, args, ins, where):
    return ex.fresh('rand.Uint64', 64)


# ------------------------------------------------------------------ secp256k1 scalars / field values: modelled by contract
SECP_N = 0xFFFFFFFFFFFFFFFFFFFFFFFFFFFFFFFEBAAEDCE6AF48A03BBFD25E8CD0364141
SECP_P = 0xFFFFFFFFFFFFFFFFFFFFFFFFFFFFFFFFFFFFFFFFFFFFFFFFFFFFFFFEFFFFFC2F


def _set_byte_slice(ex, p, b, modulus, where):
    """SetByteSlice contract: interpret up to 32 bytes big endian (longer input is truncated to the first 32),
    reduce modulo the modulus, report overflow iff value >= modulus.  The reduced 256-bit value is stored."""
    els = ex.slice_elems(b)[:32]
    if not els:
        val = 0
    elif all(not is_sym(x) for x in els):
        val = int.from_bytes(bytes(els), 'big')
    else:
        val = bytes_to_bv(els)
        if val.size() < 256:
            val = z3.ZeroExt(256 - val.size(), val)
    if is_sym(val):
        ov = z3.UGE(val, z3.BitVecVal(modulus, 256))
        red = z3.If(ov, val - z3.BitVecVal(modulus, 256), val)
        ov, red = simp(ov), simp(red)
    else:
        ov = val >= modulus
        red = val - modulus if ov else val
    ex.store(p, ('u256', red), where, None)
    ex.cut_notes.add('stub: secp256k1 ModNScalar/FieldVal.SetByteSlice modelled by contract (256-bit value, overflow iff >= modulus)')
    return ov


def _u256_get(ex, p, where):
    v = ex.load(p, where, None)
    if isinstance(v, tuple) and v and v[0] == 'u256':
        return v[1]
    return 0   # zero value of the struct


@intrinsic('(*github.com/decred/dcrd/dcrec/secp256k1/v4.ModNScalar).SetByteSlice')
def _modn_set(ex, args, ins, where):
    return _set_byte_slice(ex, args[0], args[1], SECP_N, where)


@intrinsic('(*github.com/decred/dcrd/dcrec/secp256k1/v4.FieldVal).SetByteSlice')
def _fv_set(ex, args, ins, where):
    return _set_byte_slice(ex, args[0], args[1], SECP_P, where)


@intrinsic('(*github.com/decred/dcrd/dcrec/secp256k1/v4.ModNScalar).IsZero',
           '(*github.com/decred/dcrd/dcrec/secp256k1/v4.FieldVal).IsZero')
def _u256_iszero(ex, args, ins, where):
    v = _u256_get(ex, args[0], where)
    return simp(v == 0) if is_sym(v) else v == 0


@intrinsic('(*github.com/decred/dcrd/dcrec/secp256k1/v4.ModNScalar).IsOverHalfOrder')
def _modn_overhalf(ex, args, ins, where):
    v = _u256_get(ex, args[0], where)
    half = SECP_N >> 1
    return simp(z3.UGT(v, z3.BitVecVal(half, 256))) if is_sym(v) else v > half


@intrinsic('github.com/decred/dcrd/dcrec/secp256k1/v4/ecdsa.NewSignature',
           'github.com/decred/dcrd/dcrec/secp256k1/v4/schnorr.NewSignature')
def _new_sig(ex, args, ins, where):
    r = _u256_get(ex, args[0], where)
    s = _u256_get(ex, args[1], where)
    return Ptr(ex.new_obj(('sig', r, s)), ())


# ------------------------------------------------------------------ globals initialised from curve parameters
from core import GLOBAL_FIXUPS


def _half_order(ex):
    return Ptr(ex.new_obj(BigV(False, SECP_N >> 1)), ())


GLOBAL_FIXUPS['txscript/v2.halfOrder'] = _half_order
GLOBAL_FIXUPS['txscript.halfOrder'] = _half_order


@intrinsic('unicode/utf8.ValidString', 'unicode/utf8.Valid')
def _utf8_valid(ex, args, ins, where):
    s = args[0]
    bs = str_bytes(s) if isinstance(s, (bytes, StrV)) else ex.slice_elems(s)
    if any(is_sym(b) for b in bs):
        raise Unsupported('utf8.ValidString on symbolic bytes')
    try:
        bytes(bs).decode('utf8')
        return True
    except UnicodeDecodeError:
        return False


# ------------------------------------------------------------------ CRC-32 as an uninterpreted function (concrete fast path)
@intrinsic('hash/crc32.Checksum')
def _crc32_checksum(ex, args, ins, where):
    els = ex.slice_elems(args[0])
    if all(not is_sym(b) for b in els) or ex.pinned is not None:
        # Castagnoli polynomial, bitwise
        crc = 0xffffffff
        for b in els:
            crc ^= b
            for _ in range(8):
                crc = (crc >> 1) ^ (0x82f63b78 if crc & 1 else 0)
        return crc ^ 0xffffffff
    key = ('crc32c', len(els))
    f = ex.uf_cache.get(key)
    if f is None:
        f = ex.uf_cache[key] = z3.Function('crc32c_%d' % len(els), z3.BitVecSort(8 * len(els)), z3.BitVecSort(32))
    ex.cut_notes.add('hash-uf:crc32c')
    return f(bytes_to_bv(els))


@intrinsic('hash/crc32.MakeTable')
def _crc32_table(ex, args, ins, where):
    return Ptr(ex.new_obj(Opaque('crc32 table')), ())


def _int_from_bytes(bs, endian, width):
    if endian == 'big':
        bs = list(reversed(bs))
    if all(not is_sym(b) for b in bs):
        v = 0
        for i, b in enumerate(bs):
            v |= b << (8 * i)
        return v
    return simp(z3.Concat(*[to_bv(b, 8) for b in reversed(bs)])) if len(bs) > 1 else bs[0]


@intrinsic('encoding/binary.Read')
def _binary_read(ex, args, ins, where):
    r, order, data = args
    endian = _order_name(ex, order)
    if not isinstance(data, Iface):
        raise Unsupported('binary.Read data')
    T = ex.T
    t, v = data.t, data.v
    if T.kind(t) == 'slice':
        if T.kind(T.elem(t)) != 'int' or T.width(T.elem(t)) != 8:
            raise Unsupported('binary.Read into ' + T.tab[t]['str'])
        res = ex.call('io.ReadFull', [r, v], ins, where, 10)
        return res[1]
    if T.kind(t) != 'ptr':
        raise Unsupported('binary.Read into non-pointer')
    et = T.elem(t)
    k = T.kind(et)
    if k == 'slice':
        # binary.Read rejects a pointer to a slice ("invalid type")
        return opaque_err('binary.Read: invalid type')
    if k == 'int':
        n = T.width(et) // 8
    elif k == 'array' and T.kind(T.elem(et)) == 'int' and T.width(T.elem(et)) == 8:
        n = T.under(et)['len']
    elif k == 'bool':
        n = 1
    else:
        raise Unsupported('binary.Read into ' + T.tab[t]['str'])
    buf = ex.mkslice([0] * n)
    res = ex.call('io.ReadFull', [r, buf], ins, where, 10)
    err = res[1]
    if err is not NIL:
        return err
    bs = ex.slice_elems(buf)
    if k == 'int':
        ex.store(v, _int_from_bytes(bs, endian, T.width(et)), where, et)
    elif k == 'bool':
        ex.store(v, simp(to_bv(bs[0], 8) != 0) if is_sym(bs[0]) else bs[0] != 0, where, et)
    else:
        ex.store(v, bs, where, et)
    return NIL


def _siphash24(key, msg):
    """reference SipHash-2-4 (64-bit), key = 16 bytes little endian k0 || k1"""
    M = (1 << 64) - 1
    rotl = lambda x, b: ((x << b) | (x >> (64 - b))) & M
    k0 = int.from_bytes(key[:8], 'little')
    k1 = int.from_bytes(key[8:16], 'little')
    v = [k0 ^ 0x736f6d6570736575, k1 ^ 0x646f72616e646f6d, k0 ^ 0x6c7967656e657261, k1 ^ 0x7465646279746573]

    def rnd():
        v[0] = (v[0] + v[1]) & M; v[1] = rotl(v[1], 13); v[1] ^= v[0]; v[0] = rotl(v[0], 32)
        v[2] = (v[2] + v[3]) & M; v[3] = rotl(v[3], 16); v[3] ^= v[2]
        v[0] = (v[0] + v[3]) & M; v[3] = rotl(v[3], 21); v[3] ^= v[0]
        v[2] = (v[2] + v[1]) & M; v[1] = rotl(v[1], 17); v[1] ^= v[2]; v[2] = rotl(v[2], 32)
    n = len(msg)
    tail = msg[n - n % 8:]
    for i in range(0, n - n % 8, 8):
        m = int.from_bytes(msg[i:i + 8], 'little')
        v[3] ^= m
        rnd(); rnd()
        v[0] ^= m
    b = ((n & 0xff) << 56) | int.from_bytes(tail, 'little')
    v[3] ^= b
    rnd(); rnd()
    v[0] ^= b
    v[2] ^= 0xff
    rnd(); rnd(); rnd(); rnd()
    return (v[0] ^ v[1] ^ v[2] ^ v[3]) & M


@intrinsic('github.com/aead/siphash.Sum64')
def _siphash_sum64(ex, args, ins, where):
    """SipHash-2-4 as an uninterpreted function of (message bytes, key bytes)"""
    msg = ex.slice_elems(args[0])
    key = ex.load(args[1], where, None)
    bs = list(msg) + list(key)
    if all(not is_sym(b) for b in bs):
        return _siphash24(bytes(key), bytes(msg))
    if ex.pinned is not None:
        raise Unsupported('pinned SipHash on symbolic bytes')
    k = ('siphash', len(msg))
    f = ex.uf_cache.get(k)
    if f is None:
        f = ex.uf_cache[k] = z3.Function('siphash24_%d' % len(msg), z3.BitVecSort(8 * len(bs)), z3.BitVecSort(64))
    ex.cut_notes.add('hash-uf:siphash')
    return f(bytes_to_bv(bs))


@intrinsic('(*github.com/decred/dcrd/dcrec/secp256k1/v4.FieldVal).Set', '(*github.com/decred/dcrd/dcrec/secp256k1/v4.ModNScalar).Set')
def _u256_set(ex, args, ins, where):
    ex.store(args[0], ('u256', _u256_get(ex, args[1], where)), where, None)
    return args[0]


@intrinsic('(*github.com/decred/dcrd/dcrec/secp256k1/v4.FieldVal).Normalize')
def _fv_normalize(ex, args, ins, where):
    return args[0]


# ------------------------------------------------------------------ ModNScalar: fixed-size array forms of the contract
def _u256_to_bytes(v):
    if is_sym(v):
        return [simp(z3.Extract(255 - 8 * i, 248 - 8 * i, v)) for i in range(32)]
    return list(int(v).to_bytes(32, 'big'))


@intrinsic('(*github.com/decred/dcrd/dcrec/secp256k1/v4.ModNScalar).SetBytes')
def _modn_setbytes(ex, args, ins, where):
    """SetBytes(*[32]byte) uint32: as SetByteSlice; the overflow indication is 1 or 0"""
    arr = list(ex.load(args[1], where, None))
    ov = _set_byte_slice(ex, args[0], ex.mkslice(arr), SECP_N, where)
    if is_sym(ov):
        return simp(z3.If(ov, z3.BitVecVal(1, 32), z3.BitVecVal(0, 32)))
    return 1 if ov else 0


@intrinsic('(*github.com/decred/dcrd/dcrec/secp256k1/v4.ModNScalar).PutBytes')
def _modn_putbytes(ex, args, ins, where):
    ex.store(args[1], _u256_to_bytes(_u256_get(ex, args[0], where)), where, None)
    return None


@intrinsic('(*github.com/decred/dcrd/dcrec/secp256k1/v4.ModNScalar).Bytes')
def _modn_bytes(ex, args, ins, where):
    return _u256_to_bytes(_u256_get(ex, args[0], where))


@intrinsic('(*github.com/decred/dcrd/dcrec/secp256k1/v4.ModNScalar).Equals')
def _modn_equals(ex, args, ins, where):
    a, b = _u256_get(ex, args[0], where), _u256_get(ex, args[1], where)
    if is_sym(a) or is_sym(b):
        return simp(to_bv(a, 256) == to_bv(b, 256))
    return a == b


# ------------------------------------------------------------------ private keys: opaque, remembering their scalar
class OpaquePriv(Opaque):
    def __init__(self, scalar):
        Opaque.__init__(self, 'secp256k1.PrivateKey')
        self.scalar = scalar        # int (reduced mod n) or a 256-bit term


@intrinsic('github.com/decred/dcrd/dcrec/secp256k1/v4.PrivKeyFromBytes')
def _privkey_from_bytes(ex, args, ins, where):
    els = ex.slice_elems(args[0])[:32]
    if all(not is_sym(b) for b in els):
        v = int.from_bytes(bytes(els), 'big') % SECP_N if els else 0
    else:
        v = bytes_to_bv(els)
        if v.size() < 256:
            v = z3.ZeroExt(256 - v.size(), v)
        v = simp(z3.If(z3.UGE(v, z3.BitVecVal(SECP_N, 256)), v - z3.BitVecVal(SECP_N, 256), v))
    ex.cut_notes.add('stub: secp256k1 private keys are opaque objects remembering their scalar (reduced mod n)')
    return Ptr(ex.new_obj(OpaquePriv(v)), ())


@intrinsic('(*github.com/decred/dcrd/dcrec/secp256k1/v4.PrivateKey).Serialize',
           '(github.com/decred/dcrd/dcrec/secp256k1/v4.PrivateKey).Serialize')
def _privkey_serialize(ex, args, ins, where):
    o = args[0] if isinstance(args[0], Opaque) else ex.heap[args[0].obj]
    if not isinstance(o, OpaquePriv):
        raise Unsupported('PrivateKey.Serialize on a key not built by PrivKeyFromBytes')
    return ex.mkslice(_u256_to_bytes(o.scalar))


@intrinsic('(*github.com/decred/dcrd/dcrec/secp256k1/v4.PrivateKey).PubKey')
def _privkey_pubkey(ex, args, ins, where):
    o = args[0] if isinstance(args[0], Opaque) else ex.heap[args[0].obj]
    if isinstance(o, OpaquePriv) and not is_sym(o.scalar) and o.scalar != 0:
        x, y = _ec_mul(o.scalar, (_GX, _GY))
        return Ptr(ex.new_obj(OpaqueKey([2 + (y & 1)] + list(x.to_bytes(32, 'big')))), ())
    return Ptr(ex.new_obj(Opaque('secp256k1.PublicKey')), ())


@intrinsic('(*github.com/decred/dcrd/dcrec/secp256k1/v4.ModNScalar).Zero')
def _modn_zero(ex, args, ins, where):
    ex.store(args[0], ('u256', 0), where, None)
    return None
