"""further intrinsics (added per property)"""
import z3
from values import *  # noqa
from core import INTRINSICS, intrinsic, prefix_intrinsic, Exec, SymIdx
from intrinsics import harness, HARNESS, uf_hash, opaque_err, bytes_to_bv


# ------------------------------------------------------------------ secp256k1 (curve arithmetic is outside the encoder)
@intrinsic('github.com/decred/dcrd/dcrec/secp256k1/v4.ParsePubKey')
def _parse_pubkey(ex, args, ins, where):
    """validity of a serialized public key is a nondeterministic bit (curve membership needs field arithmetic)"""
    ok = ex.fresh('secp.ParsePubKey.ok', 1, boolean=True)
    ex.cut_notes.add('stub: secp256k1.ParsePubKey returns a nondeterministic verdict')
    if ex.branch(ok, 'ParsePubKey verdict'):
        return [Ptr(ex.new_obj(Opaque('secp256k1.PublicKey')), ()), NIL]
    return [NIL, opaque_err('secp256k1 parse error')]


@intrinsic('(*github.com/decred/dcrd/dcrec/secp256k1/v4.PublicKey).SerializeUncompressed',
           '(github.com/decred/dcrd/dcrec/secp256k1/v4.PublicKey).SerializeUncompressed')
def _ser_uncompressed(ex, args, ins, where):
    vs = [4] + [ex.fresh('secp.SerializeUncompressed', 8) for _ in range(64)]
    return ex.mkslice(vs)


@intrinsic('(*github.com/decred/dcrd/dcrec/secp256k1/v4.PublicKey).SerializeCompressed',
           '(github.com/decred/dcrd/dcrec/secp256k1/v4.PublicKey).SerializeCompressed')
def _ser_compressed(ex, args, ins, where):
    b0 = ex.fresh('secp.SerializeCompressed', 8)
    if is_sym(b0):
        ex.add(z3.Or(b0 == 2, b0 == 3))
    vs = [b0] + [ex.fresh('secp.SerializeCompressed', 8) for _ in range(32)]
    return ex.mkslice(vs)
