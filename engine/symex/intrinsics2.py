"""further intrinsics (added per property)"""
import z3
from values import *  # noqa
from core import INTRINSICS, intrinsic, prefix_intrinsic, Exec, SymIdx
from intrinsics import harness, HARNESS, uf_hash, opaque_err, bytes_to_bv
