"""GF(2)-affine normalisation of bit-vector terms.

CRC / BCH style code (bech32's polymod) is affine over GF(2) in the input bits: every bit of the state is an
XOR of input bits and a constant.  Bit-blasting SAT solvers cannot prove identities between such terms beyond a
few dozen bits (they lack Gaussian elimination), although the identities are decided by mere normalisation.
This module rewrites a boolean z3 term before it is handed to the solver: every maximal sub-term that is affine
over GF(2) is put into the canonical form "constant XOR set-of-variable-bits"; equalities between affine vectors
become constants (when the variable parts cancel) or short per-bit XOR equations over the remaining variables.
The result is an equivalent z3 term - the verdict is still the solver's - but the part that needs linear algebra
has been discharged by normalisation.  Anything that is not affine is left untouched.
"""
import z3

K = z3  # short alias for op kinds


class Registry:
    def __init__(self):
        self.index = {}     # (var name, bit) -> global index
        self.terms = []     # global index -> 1-bit z3 term

    def bit(self, var, i):
        key = (var.decl().name(), i)
        k = self.index.get(key)
        if k is None:
            k = self.index[key] = len(self.terms)
            self.terms.append(z3.Extract(i, i, var))
        return k

    def boolbit(self, var):
        key = (var.decl().name(), 'bool')
        k = self.index.get(key)
        if k is None:
            k = self.index[key] = len(self.terms)
            self.terms.append(z3.If(var, z3.BitVecVal(1, 1), z3.BitVecVal(0, 1)))
        return k


class Aff:
    """w bits; bit i = consts bit i XOR (XOR of registry bits in masks[i])"""
    __slots__ = ('w', 'c', 'm')

    def __init__(self, w, c, m):
        self.w, self.c, self.m = w, c, m

    def is_const(self):
        return not any(self.m)


def _xor(a, b):
    return Aff(a.w, a.c ^ b.c, [x ^ y for x, y in zip(a.m, b.m)])


class Normalizer:
    def __init__(self):
        self.reg = Registry()
        self.memo = {}
        self.bmemo = {}
        self.hits = 0

    # ---- bit-vector terms -> Aff or None
    def conv(self, t):
        tid = t.get_id()
        hit = self.memo.get(tid)
        if hit is not None:
            return hit[1]
        r = self._conv(t)
        self.memo[tid] = (t, r)     # the term is kept alive so that its id is not reused
        return r

    def _conv(self, t):
        if not z3.is_bv(t):
            return None
        w = t.size()
        if z3.is_bv_value(t):
            return Aff(w, t.as_long(), [0] * w)
        k = t.decl().kind()
        ch = t.children()
        if k == K.Z3_OP_UNINTERPRETED and not ch:
            return Aff(w, 0, [1 << self.reg.bit(t, i) for i in range(w)])
        if k == K.Z3_OP_BXOR:
            acc = Aff(w, 0, [0] * w)
            for c in ch:
                a = self.conv(c)
                if a is None:
                    return None
                acc = _xor(acc, a)
            return acc
        if k == K.Z3_OP_BNOT:
            a = self.conv(ch[0])
            if a is None:
                return None
            return Aff(w, a.c ^ ((1 << w) - 1), list(a.m))
        if k == K.Z3_OP_BAND:
            affs = [self.conv(c) for c in ch]
            if any(a is None for a in affs):
                return None
            consts = [a for a in affs if a.is_const()]
            vars_ = [a for a in affs if not a.is_const()]
            mask = (1 << w) - 1
            for a in consts:
                mask &= a.c
            if not vars_:
                return Aff(w, mask, [0] * w)
            if len(vars_) > 1:
                return None
            a = vars_[0]
            return Aff(w, a.c & mask, [a.m[i] if (mask >> i) & 1 else 0 for i in range(w)])
        if k == K.Z3_OP_BOR:
            affs = [self.conv(c) for c in ch]
            if any(a is None for a in affs):
                return None
            # OR of operands with pairwise disjoint supports is XOR
            c, m = 0, [0] * w
            for a in affs:
                for i in range(w):
                    nz_a = a.m[i] != 0 or (a.c >> i) & 1
                    nz_acc = m[i] != 0 or (c >> i) & 1
                    if nz_a and nz_acc:
                        return None
                c ^= a.c
                m = [x ^ y for x, y in zip(m, a.m)]
            return Aff(w, c, m)
        if k == K.Z3_OP_CONCAT:
            parts = [self.conv(c) for c in ch]
            if any(p is None for p in parts):
                return None
            c, m = 0, []
            for p in reversed(parts):    # last child is least significant
                c |= p.c << len(m)
                m.extend(p.m)
            return Aff(w, c, m)
        if k == K.Z3_OP_EXTRACT:
            hi, lo = t.params()
            a = self.conv(ch[0])
            if a is None:
                return None
            return Aff(w, (a.c >> lo) & ((1 << w) - 1), a.m[lo:hi + 1])
        if k == K.Z3_OP_ZERO_EXT:
            a = self.conv(ch[0])
            if a is None:
                return None
            return Aff(w, a.c, a.m + [0] * (w - a.w))
        if k == K.Z3_OP_SIGN_EXT:
            a = self.conv(ch[0])
            if a is None:
                return None
            top_c = (a.c >> (a.w - 1)) & 1
            c = a.c | (((1 << (w - a.w)) - 1) << a.w if top_c else 0)
            return Aff(w, c, a.m + [a.m[-1]] * (w - a.w))
        if k in (K.Z3_OP_BSHL, K.Z3_OP_BLSHR, K.Z3_OP_BASHR):
            a = self.conv(ch[0])
            if a is None or not z3.is_bv_value(ch[1]):
                return None
            s = ch[1].as_long()
            if k == K.Z3_OP_BSHL:
                if s >= w:
                    return Aff(w, 0, [0] * w)
                return Aff(w, (a.c << s) & ((1 << w) - 1), [0] * s + a.m[:w - s])
            if k == K.Z3_OP_BLSHR:
                if s >= w:
                    return Aff(w, 0, [0] * w)
                return Aff(w, a.c >> s, a.m[s:] + [0] * s)
            s = min(s, w - 1)
            top_c = (a.c >> (w - 1)) & 1
            c = (a.c >> s) | ((((1 << s) - 1) << (w - s)) if top_c else 0)
            return Aff(w, c, a.m[s:] + [a.m[-1]] * s)
        if k == K.Z3_OP_ITE:
            cb = self.convb(ch[0])
            a, b = self.conv(ch[1]), self.conv(ch[2])
            if cb is None or a is None or b is None:
                return None
            cc, cm = cb
            if cm == 0:
                return a if cc else b
            d = _xor(a, b)
            if not d.is_const():
                return None
            # result = b ^ (cond ? d : 0); cond = cc ^ bits(cm)
            c = b.c ^ (d.c if cc else 0)
            m = [b.m[i] ^ (cm if (d.c >> i) & 1 else 0) for i in range(w)]
            return Aff(w, c, m)
        return None

    # ---- boolean terms -> (const, mask) or None
    def convb(self, t):
        tid = t.get_id()
        hit = self.bmemo.get(tid)
        if hit is not None:
            return hit[1]
        r = self._convb(t)
        self.bmemo[tid] = (t, r)
        return r

    def _convb(self, t):
        if z3.is_true(t):
            return (1, 0)
        if z3.is_false(t):
            return (0, 0)
        k = t.decl().kind()
        ch = t.children()
        if k == K.Z3_OP_UNINTERPRETED and not ch and z3.is_bool(t):
            return (0, 1 << self.reg.boolbit(t))
        if k == K.Z3_OP_NOT:
            a = self.convb(ch[0])
            return None if a is None else (a[0] ^ 1, a[1])
        if k in (K.Z3_OP_EQ, K.Z3_OP_DISTINCT) and len(ch) == 2 and z3.is_bv(ch[0]):
            a, b = self.conv(ch[0]), self.conv(ch[1])
            if a is None or b is None:
                return None
            d = _xor(a, b)
            live = [i for i in range(d.w) if d.m[i]]
            dead_one = any((d.c >> i) & 1 and not d.m[i] for i in range(d.w))
            if dead_one:
                r = (0, 0)
            elif not live:
                r = (1, 0)
            elif len(live) == 1:
                i = live[0]
                r = (((d.c >> i) & 1) ^ 1, d.m[i])     # equal iff that bit is 0
            else:
                return None
            return r if k == K.Z3_OP_EQ else (r[0] ^ 1, r[1])
        if k in (K.Z3_OP_EQ, K.Z3_OP_IFF, K.Z3_OP_XOR) and len(ch) == 2 and z3.is_bool(ch[0]):
            a, b = self.convb(ch[0]), self.convb(ch[1])
            if a is None or b is None:
                return None
            x = (a[0] ^ b[0], a[1] ^ b[1])
            return x if k == K.Z3_OP_XOR else (x[0] ^ 1, x[1])
        if k in (K.Z3_OP_AND, K.Z3_OP_OR, K.Z3_OP_ITE, K.Z3_OP_IMPLIES) and all(z3.is_bool(c) for c in ch):
            return self._boolfun(t)
        return None

    def _boolfun(self, t):
        """and/or/ite trees (the simplifier writes XOR / XNOR of bits that way): decide by truth table over the
        affine atoms whether the function is affine in them"""
        atoms = []       # list of (const, mask) distinct by mask
        index = {}
        STRUCT = (K.Z3_OP_AND, K.Z3_OP_OR, K.Z3_OP_ITE, K.Z3_OP_IMPLIES, K.Z3_OP_NOT)

        cmemo = {}

        def compile_(u):
            uid = u.get_id()
            if uid in cmemo:
                return cmemo[uid]
            r = compile1(u)
            cmemo[uid] = r
            return r

        def compile1(u):
            # a sub-tree that is itself affine is one atom (keeps the truth table small)
            if u is not t:
                hit = self.bmemo.get(u.get_id())
                if hit is not None and hit[1] is not None:
                    c0, m = hit[1]
                    if m == 0:
                        return ('c', c0)
                    if m not in index:
                        if len(atoms) >= 8:
                            return None
                        index[m] = len(atoms)
                        atoms.append(m)
                    return ('a', index[m], c0)
            kk = u.decl().kind()
            cc = u.children()
            if z3.is_true(u):
                return ('c', 1)
            if z3.is_false(u):
                return ('c', 0)
            if kk in STRUCT and all(z3.is_bool(c) for c in cc):
                # children first: an affine child collapses to a single atom
                for c in cc:
                    if c.decl().kind() in STRUCT:
                        self.convb(c)
                subs = [compile_(c) for c in cc]
                if any(s is None for s in subs):
                    return None
                return (kk, subs)
            a = self.convb(u) if kk not in STRUCT else None
            if a is None:
                return None
            c0, m = a
            if m == 0:
                return ('c', c0)
            if m not in index:
                if len(atoms) >= 8:
                    return None
                index[m] = len(atoms)
                atoms.append(m)
            return ('a', index[m], c0)

        prog = compile_(t)
        if prog is None or not atoms:
            if prog is not None and prog[0] == 'c':
                return (prog[1], 0)
            return None

        def ev(p, x, memo=None):
            if p[0] == 'c':
                return p[1]
            if p[0] == 'a':
                return ((x >> p[1]) & 1) ^ p[2]
            kk, subs = p
            vals = [ev(s, x) for s in subs]
            if kk == K.Z3_OP_AND:
                return int(all(vals))
            if kk == K.Z3_OP_OR:
                return int(any(vals))
            if kk == K.Z3_OP_NOT:
                return vals[0] ^ 1
            if kk == K.Z3_OP_IMPLIES:
                return int((not vals[0]) or vals[1])
            return vals[1] if vals[0] else vals[2]

        n = len(atoms)
        f0 = ev(prog, 0)
        coef = [ev(prog, 1 << i) ^ f0 for i in range(n)]
        for x in range(1 << n):
            want = f0
            for i in range(n):
                if (x >> i) & 1:
                    want ^= coef[i]
            if ev(prog, x) != want:
                return None
        mask = 0
        for i in range(n):
            if coef[i]:
                mask ^= atoms[i]
        return (f0, mask)

    # ---- back to z3
    def bit_term(self, const, mask):
        """1-bit z3 term for const XOR bits(mask)"""
        terms = []
        i = 0
        while mask:
            if mask & 1:
                terms.append(self.reg.terms[i])
            mask >>= 1
            i += 1
        acc = z3.BitVecVal(const, 1)
        for x in terms:
            acc = acc ^ x
        return acc

    def eq_formula(self, d):
        """formula for 'every bit of the affine vector d is zero'"""
        conj = []
        for i in range(d.w):
            if not d.m[i]:
                if (d.c >> i) & 1:
                    return z3.BoolVal(False)
                continue
            conj.append(self.bit_term((d.c >> i) & 1, d.m[i]) == z3.BitVecVal(0, 1))
        if not conj:
            return z3.BoolVal(True)
        return z3.And(*conj) if len(conj) > 1 else conj[0]

    def simplify(self, t):
        """equivalent boolean term with affine parts normalised"""
        k = t.decl().kind()
        ch = t.children()
        if k in (K.Z3_OP_AND, K.Z3_OP_OR, K.Z3_OP_NOT, K.Z3_OP_IMPLIES) or \
                (k in (K.Z3_OP_EQ, K.Z3_OP_IFF, K.Z3_OP_XOR, K.Z3_OP_ITE) and ch and all(z3.is_bool(c) for c in ch)):
            new = [self.simplify(c) for c in ch]
            if all(a.eq(b) for a, b in zip(new, ch)):
                return t
            if k == K.Z3_OP_AND:
                return z3.And(*new)
            if k == K.Z3_OP_OR:
                return z3.Or(*new)
            if k == K.Z3_OP_NOT:
                return z3.Not(new[0])
            if k == K.Z3_OP_IMPLIES:
                return z3.Implies(new[0], new[1])
            if k == K.Z3_OP_XOR:
                return z3.Xor(new[0], new[1])
            if k == K.Z3_OP_ITE:
                return z3.If(new[0], new[1], new[2])
            return new[0] == new[1]
        if k in (K.Z3_OP_EQ, K.Z3_OP_DISTINCT) and len(ch) == 2 and z3.is_bv(ch[0]):
            a, b = self.conv(ch[0]), self.conv(ch[1])
            if a is not None and b is not None:
                self.hits += 1
                f = self.eq_formula(_xor(a, b))
                return f if k == K.Z3_OP_EQ else z3.Not(f)
        return t
