"""check driver: export IR from /repo's working tree, run every harness root of a property through the
symbolic executor, replay solver models natively, validate the translator, write evidence."""
import argparse
import glob
import hashlib
import json
import multiprocessing as mp
import os
import random
import re
import shlex
import shutil
import subprocess
import sys
import time
import traceback

HERE = os.path.dirname(os.path.abspath(__file__))
VERIF = os.path.dirname(os.path.dirname(HERE))
REPO = os.environ.get('VERIF_REPO', '/repo')
sys.path.insert(0, HERE)

GOENV = dict(os.environ, GOFLAGS='-mod=mod', GOPROXY='off', GOTOOLCHAIN='auto')
GOENV.pop('GOSUMDB', None)
EXPORTER = os.path.join(VERIF, 'engine', 'ssaexport', 'ssaexport')

MASK64 = (1 << 64) - 1


def vprng(seed, key):
    """mirror of prelude.go.tmpl vprng"""
    if seed == 0:
        return 0
    if seed == 1:
        return MASK64
    h = 14695981039346656037 ^ seed
    for c in key.encode():
        h ^= c
        h = (h * 1099511628211) & MASK64
    h = (h + 0x9e3779b97f4a7c15) & MASK64
    z = h
    z = ((z ^ (z >> 30)) * 0xbf58476d1ce4e5b9) & MASK64
    z = ((z ^ (z >> 27)) * 0x94d049bb133111eb) & MASK64
    z = z ^ (z >> 31)
    top = z >> 61
    if top == 0:
        return z & 0xff
    if top == 1:
        return z & 0xffff
    if top == 2:
        return z & 0xffffffff
    if top == 3:
        return (z & 0xff) | 0xffffffffffffff00
    return z


# ------------------------------------------------------------------ harness discovery
class Group:
    def __init__(self, module, pkgdir):
        self.module, self.pkgdir = module, pkgdir
        self.files = []
        self.extras = []    # (package dir relative to the module, helper file): overlaid into another package
        self.roots = {}     # name -> opts
        self.pkgname = None
        self.ir_path = None

    @property
    def key(self):
        return (self.module + '_' + self.pkgdir).replace('/', '_').replace('.', 'root')

    @property
    def moddir(self):
        return os.path.normpath(os.path.join(REPO, self.module))

    @property
    def absdir(self):
        return os.path.normpath(os.path.join(REPO, self.module, self.pkgdir))


def parse_opts(s):
    o = {}
    for tok in s.split():
        if '=' in tok:
            k, v = tok.split('=', 1)
            o[k] = v
        else:
            o[tok] = '1'
    return o


def discover(prop):
    groups = {}
    for path in sorted(glob.glob(os.path.join(VERIF, 'harness', prop, '*.go'))):
        src = open(path).read()
        m = re.search(r'^//verif:module\s+(\S+)', src, re.M)
        p = re.search(r'^//verif:pkg\s+(\S+)', src, re.M)
        if not m or not p:
            raise SystemExit('harness %s lacks //verif:module or //verif:pkg' % path)
        g = groups.setdefault((m.group(1), p.group(1)), Group(m.group(1), p.group(1)))
        g.files.append(path)
        for mx in re.finditer(r'^//verif:extra\s+(\S+)\s+(\S+)', src, re.M):
            ex = (mx.group(1), os.path.join(VERIF, 'harness', mx.group(2)))
            if ex not in g.extras:
                g.extras.append(ex)
        pk = re.search(r'^package\s+(\w+)', src, re.M).group(1)
        g.pkgname = pk
        pend = {}
        for line in src.split('\n'):
            mo = re.match(r'^//verif:opts\s+(.*)', line)
            if mo:
                pend.update(parse_opts(mo.group(1)))
                continue
            mf = re.match(r'^func (VH_\w+)\(\)', line)
            if mf:
                g.roots[mf.group(1)] = pend
                pend = {}
            elif line.strip() and not line.startswith('//'):
                pend = {}
    return list(groups.values())


def prelude_for(g, workdir):
    t = open(os.path.join(VERIF, 'engine', 'prelude.go.tmpl')).read().replace('PKGNAME', g.pkgname)
    p = os.path.join(workdir, g.key + '_prelude.go')
    open(p, 'w').write(t)
    return p


REWRITE_SPECS = {}   # absolute source path -> rewrite spec of the last native_rewrites call


def native_rewrites(g, workdir):
    """noverride= options: source files of the package rewritten so that the named functions forward to the harness
    stub while the harnesses that asked for it run (engine/ssaexport/rewrite.go); path in /repo -> rewritten copy"""
    per_file = {}
    for root, opts in g.roots.items():
        for x in opts.get('noverride', '').split(';'):
            if x:
                f, tgt, stub = x.split(':')
                per_file.setdefault(f, {}).setdefault(tgt, {}).setdefault(stub, []).append(root)
    out = {}
    for f, m in per_file.items():
        src = os.path.join(g.absdir, f)
        dst = os.path.join(workdir, g.key + '_rw_' + f.replace('/', '_'))
        spec = ';'.join('%s=%s' % (tgt, ','.join('%s@%s' % (stub, '|'.join(sorted(roots)))
                                               for stub, roots in sorted(stubs.items())))
                        for tgt, stubs in sorted(m.items()))
        r = subprocess.run([EXPORTER, '-rewrite', src, '-spec', spec, '-o', dst], capture_output=True, text=True)
        if r.returncode:
            raise RuntimeError('native override rewrite failed: ' + r.stderr)
        out[src] = dst
        REWRITE_SPECS[src] = spec
    return out


def overlay_map(g, workdir, native=False):
    """virtual path under /repo -> real file"""
    ov = {}
    if native:
        ov.update(native_rewrites(g, workdir))
    ov[os.path.join(g.absdir, 'zz_verif_prelude.go')] = prelude_for(g, workdir)
    for f in g.files:
        ov[os.path.join(g.absdir, 'zz_verif_' + os.path.basename(f))] = f
    for pkgdir, f in g.extras:
        ov[os.path.normpath(os.path.join(g.moddir, pkgdir, 'zz_verif_x_' + os.path.basename(f)))] = f
    return ov


def export_group(g, workdir):
    ov = overlay_map(g, workdir)
    out = os.path.join(workdir, g.key + '.ir.json')
    cmd = [EXPORTER, '-dir', g.moddir, '-overlay', ','.join('%s=%s' % kv for kv in ov.items()), '-o', out,
           './' + g.pkgdir]
    t = time.time()
    r = subprocess.run(cmd, env=GOENV, capture_output=True, text=True)
    if r.returncode != 0:
        return None, r.stderr[-4000:]
    g.ir_path = out
    g.export_s = time.time() - t
    g.export_msg = r.stderr.strip()
    return out, None


# ------------------------------------------------------------------ worker
_IR_CACHE = {}
_BASE_CACHE = {}


def load_ir(path):
    ir = _IR_CACHE.get(path)
    if ir is None:
        with open(path) as fh:
            ir = json.load(fh)
        _IR_CACHE[path] = ir
    return ir


def make_exec(ir, opts, tier):
    import core
    import intrinsics  # noqa: F401  (registers handlers)
    import intrinsics2  # noqa: F401
    eo = {}
    for k in ('unwind', 'max_steps', 'max_decisions', 'bigw', 'qtimeout'):
        if k in opts:
            eo[k] = int(opts[k])
    if tier == 1:
        for k in ('unwind', 'max_steps', 'max_decisions', 'bigw', 'qtimeout'):
            if ('t_' + k) in opts:
                eo[k] = int(opts['t_' + k])
    if opts.get('intmode') == '1':
        eo['intmode'] = True
    if opts.get('expect_panic') == '1':
        eo['expect_panic'] = True
    if opts.get('affine') == '1':
        eo['affine'] = True
    if 'override' in opts or 'noverride' in opts:
        ov = {}
        pairs = [x for x in opts.get('override', '').split(';') if x]
        for x in opts.get('noverride', '').split(';'):
            if x:   # file:Recv.name:stub -> the method (or function) name as the exporter prints it
                _f, tgt, stub = x.split(':')
                pairs.append((tgt.replace('.', ').') if '.' in tgt else tgt) + ':' + stub)
        for pair in pairs:
            k, v = pair.split(':')
            ks = [n for n in ir['funcs'] if n == k or n.endswith('.' + k) or n.endswith('/' + k)]
            vs = [n for n in ir['funcs'] if n.endswith('.' + v)]
            if not ks and '/' in k:
                ks = [k]   # a function without exported body (blocked package): matched by its exact name
            if len(ks) != 1 or len(vs) != 1:
                raise RuntimeError('override %s: %d targets, %d stubs' % (pair, len(ks), len(vs)))
            ov[ks[0]] = vs[0]
        eo['overrides'] = ov
    ex = core.Exec(ir, eo)
    ex.tier = tier
    return ex


def run_task(task):
    """task: dict(ir, fq_root, opts, tier, seeds, mode, deadline)"""
    import faulthandler
    faulthandler.enable()
    from values import Unsupported
    t0 = time.time()
    try:
        ir = load_ir(task['ir'])
        ex = make_exec(ir, task['opts'], task['tier'])
        if task.get('seeds') not in (None, [[]], []):
            ex.xcheck_left = 0    # the second-solver cross-check samples the first task of each harness only
        bkey = (task['ir'], json.dumps(task['opts'], sort_keys=True), task['tier'])
        bc = _BASE_CACHE.get(bkey)
        if bc is None:
            ex.build_base()
            _BASE_CACHE[bkey] = (ex.base_heap, ex.base_globals, ex.init_notes, ex.stats.get('init_instrs', 0))
        else:
            ex.build_base(adopt=bc)
        if task['mode'] == 'chunk':
            summ = ex.explore(task['fq_root'], seeds=task['seeds'], max_paths=task['chunk'],
                              deadline=task['deadline'])
        else:
            summ = ex.explore(task['fq_root'], seeds=task['seeds'], deadline=task['deadline'])
        fns = []
        for name, cnt in ex.fn_used.items():
            f = ex.funcs.get(name)
            if f is not None:
                fns.append((name, f.get('file', ''), f.get('line', 0), f.get('ninstr', 0)))
        return dict(root=task['root'], ok=True, summary=summ, stats=ex.stats, results=ex.results, fns=fns,
                    cuts=sorted(ex.cut_notes), init_notes=getattr(ex, 'init_notes', []), samples=ex.samples,
                    wall=time.time() - t0)
    except Unsupported as e:
        return dict(root=task['root'], ok=False, error='unsupported: %s' % e, wall=time.time() - t0)
    except Exception as e:   # engine error
        return dict(root=task['root'], ok=False, error='engine error: %s\n%s' % (e, traceback.format_exc()[-3000:]),
                    wall=time.time() - t0)


def run_pinned(task):
    """concrete (pinned) interpretation for translator validation; returns list of (id, end, trace)"""
    from values import Unsupported, PathEnd
    import z3
    out = []
    try:
        ir = load_ir(task['ir'])
    except Exception as e:
        return [(j['id'], 'engine-error:%s' % e, []) for j in task['jobs']]
    for job in task['jobs']:
        try:
            ex = make_exec(ir, task['opts'], job['tier'])
            ex.build_base()
            seed = job['seed']
            if job['mode'] == 1:
                class P(dict):
                    def get(self, key, default=0):
                        return vprng(seed, key)
                ex.pinned = P()
                ex.pinned_prng = True
            else:
                ex.pinned = dict(job['tab'])
                ex.pinned_prng = False
            ex.trace = []
            f = ex.funcs[task['fq_root']]
            kind, info = ex.run_path(f, [])
            if kind == 'ok':
                end = 'ok'
            elif kind == 'violated':
                end = 'assert:' + str(info)
            elif kind == 'assume-false':
                end = 'assume-false'
            elif kind == 'cut':
                end = 'cut'
            elif kind == 'panic':
                end = 'panic:' + str(info)
            else:
                end = kind + ':' + str(info)
            out.append((job['id'], end, ex.trace))
        except Unsupported as e:
            out.append((job['id'], 'unsupported:%s' % e, []))
        except Exception as e:
            out.append((job['id'], 'engine-error:%s %s' % (e, traceback.format_exc()[-1500:]), []))
    return out


# ------------------------------------------------------------------ native runs (replay, validation)
def native_run(g, workdir, jobs, tag, timeout=900):
    """run jobs natively with go test -overlay; returns dict id -> (end, trace) or raises"""
    ov = overlay_map(g, workdir, native=True)
    rootmap = '\n'.join('\t\t"%s": %s,' % (r, r) for r in sorted(g.roots))
    t = open(os.path.join(VERIF, 'engine', 'replay_test.go.tmpl')).read()
    t = t.replace('PKGNAME', g.pkgname).replace('ROOTMAP', rootmap)
    tp = os.path.join(workdir, '%s_%s_replay_test.go' % (g.key, tag))
    open(tp, 'w').write(t)
    ov[os.path.join(g.absdir, 'zz_verif_replay_test.go')] = tp
    ovp = os.path.join(workdir, '%s_%s_overlay.json' % (g.key, tag))
    json.dump({'Replace': ov}, open(ovp, 'w'))
    jp = os.path.join(workdir, '%s_%s_jobs.jsonl' % (g.key, tag))
    with open(jp, 'w') as fh:
        for j in jobs:
            fh.write(json.dumps(j) + '\n')
    op = os.path.join(workdir, '%s_%s_out.jsonl' % (g.key, tag))
    if os.path.exists(op):
        os.remove(op)
    env = dict(GOENV, VERIF_JOBS=jp, VERIF_OUT=op)
    cmd = ['go', 'test', '-vet=off', '-count=1', '-run', '^TestVerifReplay$', '-overlay', ovp, '-timeout',
           '%ds' % timeout, './' + g.pkgdir]
    r = subprocess.run(cmd, cwd=g.moddir, env=env, capture_output=True, text=True, timeout=timeout + 120)
    res = {}
    if os.path.exists(op):
        for line in open(op):
            line = line.strip()
            if line:
                try:
                    d = json.loads(line)
                except ValueError:
                    continue
                res[d['id']] = (d['end'], d.get('trace') or [])
    return res, r, dict(overlay=ovp, jobs=jp, test=tp, cmd=cmd)


def norm_end(end):
    """comparable form of an end state (panic texts differ between the interpreter and the runtime)"""
    if end.startswith('panic:'):
        return 'panic'
    return end


# ------------------------------------------------------------------ known findings
def load_known():
    known = []
    p = os.path.join(VERIF, 'known_findings.txt')
    if not os.path.exists(p):
        return known
    for line in open(p):
        line = line.strip()
        if not line.startswith('known:'):
            continue
        head, _, desc = line[len('known:'):].partition('::')
        d = {}
        for tok in shlex.split(head):
            if '=' in tok:
                k, v = tok.split('=', 1)
                d[k] = v
        d['desc'] = desc.strip()
        known.append(d)
    return known


def match_known(known, prop, root, viol):
    for k in known:
        if k.get('property') != prop or k.get('harness') != root:
            continue
        if 'match' in k and k['match'] not in (viol.get('msg') or '') and k['match'] not in (viol.get('where') or ''):
            continue
        if 'pred' in k:
            env = {re.sub(r'\W', '_', n): v for n, v in viol.get('model', {}).items()}
            try:
                if not eval(k['pred'], {'__builtins__': {}}, env):
                    continue
            except Exception:
                continue
        return k
    return None


# ------------------------------------------------------------------ main
def main():
    ap = argparse.ArgumentParser()
    ap.add_argument('prop')
    ap.add_argument('--tier', default=os.environ.get('VERIF_TIER', 'quick'))
    ap.add_argument('--replay', default=None)
    ap.add_argument('--only', default=None, help='comma separated harness roots')
    ap.add_argument('--jobs', type=int, default=int(os.environ.get('VERIF_JOBS_N', '16')))
    ap.add_argument('--no-validate', action='store_true')
    ap.add_argument('--keep', action='store_true')
    ap.add_argument('--budget', type=int, default=None, help='wall-clock budget in seconds for exploration')
    a = ap.parse_args()
    prop = a.prop
    tier = 1 if a.tier == 'thorough' else 0
    seed = int(os.environ.get('VERIF_SEED', '1') or 1)
    t_start = time.time()
    if a.replay:
        return replay_saved(a.replay)
    workdir = os.path.join(VERIF, '.work', '%s_%s_%d' % (prop, a.tier, os.getpid()))
    os.makedirs(workdir, exist_ok=True)
    evid_path = os.path.join(os.environ.get('VERIF_EVIDENCE_DIR') or os.path.join(VERIF, 'evidence'), prop + '.json')
    os.makedirs(os.path.dirname(evid_path), exist_ok=True)
    if not os.path.exists(EXPORTER):
        r = subprocess.run(['go', 'build', '-o', 'ssaexport', '.'], cwd=os.path.dirname(EXPORTER), env=GOENV,
                           capture_output=True, text=True)
        if r.returncode != 0:
            print('cannot build ssaexport:', r.stderr)
            return 3
    groups = discover(prop)
    if not groups:
        print('no harnesses for', prop)
        return 3
    only = set(a.only.split(',')) if a.only else None
    # ---- export (parallel)
    status = 0
    notes = []
    with mp.Pool(min(len(groups), 8)) as pool:
        outs = pool.starmap(export_group, [(g, workdir) for g in groups])
    for g, (out, err) in zip(groups, outs):
        if out is None:
            print('ENGINE: harness group %s/%s does not build against the current tree:\n%s' % (g.module, g.pkgdir, err))
            notes.append('group %s/%s failed to load: %s' % (g.module, g.pkgdir, (err or '')[-300:]))
            status = 3
        else:
            g.ir_path = out
    # ---- tasks
    budget = a.budget or (1800 if tier == 0 else 6 * 3600)
    if tier == 1 and 'VERIF_XCHECK' not in os.environ:
        os.environ['VERIF_XCHECK'] = '12'   # workers inherit: the first task of each harness cross-checks its first 12 unsat obligations
    deadline = t_start + budget
    tasks = []
    for g in groups:
        if g.ir_path is None:
            continue
        for root, opts in g.roots.items():
            if only and root not in only:
                continue
            if opts.get('tier') == 'thorough' and tier == 0:
                continue
            if opts.get('tier') == 'manual' and not (only and root in only):
                continue   # exploratory harness: runs only when named with --only, never part of a registered check
            if opts.get('tier') == 'quick' and tier == 1 and opts.get('also_thorough') != '1':
                pass
            fq = None
            tasks.append(dict(g=g, root=root, opts=opts))
    # resolve fully-qualified root names from the IR roots list
    for g in groups:
        if g.ir_path is None:
            continue
        ir_roots = json.load(open(g.ir_path))['roots']
        g.fq = {r.rsplit('.', 1)[1]: r for r in ir_roots}
    results = {}
    pool = mp.Pool(a.jobs, maxtasksperchild=400)
    try:
        # dynamic work sharing: every task explores at most `chunk` paths below its prefixes and hands the
        # unexplored prefixes back; the master re-queues them (so deep, comb-shaped trees still spread out)
        import queue as _q
        done_q = _q.Queue()
        inflight = 0
        chunk0 = 24

        def submit(t, base, seeds, chunk):
            nonlocal inflight
            inflight += 1
            pool.apply_async(run_task, (dict(base, mode='chunk', seeds=seeds, chunk=chunk),),
                             callback=lambda r, t=t, base=base: done_q.put((t, base, r)),
                             error_callback=lambda e, t=t, base=base: done_q.put((t, base, dict(root=t['root'], ok=False, error='engine error: %r' % (e,)))))

        for t in tasks:
            g, root, opts = t['g'], t['root'], t['opts']
            base = dict(ir=g.ir_path, root=root, fq_root=g.fq[root], opts=opts, tier=tier, deadline=deadline)
            submit(t, base, [[]], chunk0)
        while inflight:
            t, base, r = done_q.get()
            inflight -= 1
            results.setdefault(t['root'], []).append(r)
            if r.get('ok') and r['summary']['pending']:
                pend = r['summary']['pending']
                r['summary']['pending'] = []
                if time.time() > deadline:
                    r['results'].append(dict(status='inconclusive', kind='deadline', where=t['root'],
                                             msg='%d pending path prefixes not explored' % len(pend)))
                    continue
                # spread: one prefix per task while the pool is hungry, otherwise small batches
                nb = max(1, min(len(pend), a.jobs * 2 - inflight)) if inflight < a.jobs * 2 else 1
                per = (len(pend) + nb - 1) // nb
                paths_so_far = sum(x['stats']['paths'] for x in results[t['root']] if x.get('ok'))
                chunk = 24 if paths_so_far < 400 else (100 if paths_so_far < 5000 else 400)
                for i in range(0, len(pend), per):
                    submit(t, base, pend[i:i + per], chunk)
    finally:
        pool.close()
        pool.join()
    # ---- aggregate
    known = load_known()
    tot = dict(paths=0, instrs=0, queries=0, solver_s=0.0, obligations=0, discharged=0, inconclusive=0, cuts=0,
               x_queries=0, x_z3old_agree=0, x_z3old_unknown=0, x_cvc5_agree=0, x_cvc5_unknown=0, x_disagree=0)
    per_root = {}
    fn_set = {}
    violations = []
    samples = []
    cuts = set()
    for t in tasks:
        root, opts, g = t['root'], t['opts'], t['g']
        rs = results.get(root, [])
        info = dict(ends={}, reached=set(), errors=[], violations=[], inconclusive=[], wall=0.0, paths=0)
        for r in rs:
            info['wall'] += r.get('wall', 0)
            if not r.get('ok'):
                info['errors'].append(r.get('error'))
                continue
            for k in tot:
                tot[k] += r['stats'].get(k, 0)
            info['paths'] += r['stats'].get('paths', 0)
            for k, v in r['summary']['ends'].items():
                info['ends'][k] = info['ends'].get(k, 0) + v
            info['reached'] |= set(r['summary']['reached'])
            for x in r['results']:
                dk = (x['status'], x.get('kind'), x.get('where'), x.get('msg'))
                if dk in info.setdefault('_seen', set()):
                    continue
                info['_seen'].add(dk)
                if x['status'] == 'violation':
                    if x['kind'] == 'bigw':
                        info['inconclusive'].append(x)
                    else:
                        info['violations'].append(x)
                else:
                    info['inconclusive'].append(x)
            for f in r['fns']:
                fn_set[f[0]] = f
            for c in r['cuts']:
                cuts.add(c)
            for s in r['samples']:
                if len(samples) < 12:
                    samples.append(dict(s, harness=root))
        # vacuity: declared reach tags must be reached on a feasible, completed path
        want = [x for x in opts.get('reach', 'end').split(',') if x]
        missing = [x for x in want if x not in info['reached']]
        info['missing_reach'] = missing
        per_root[root] = info
    # ---- replay violations natively
    viol_lines = []
    known_lines = []
    replay_dir_base = os.path.join(VERIF, 'replays', prop)
    unreproduced = 0
    reproduced = 0
    for t in tasks:
        root, g = t['root'], t['g']
        info = per_root[root]
        if not info['violations']:
            continue
        jobs = []
        for i, v in enumerate(info['violations']):
            jobs.append(dict(id='%s/%d' % (root, i), root=root, mode=0, seed=0, tier=tier, tab=v.get('model', {})))
        try:
            res, proc, files = native_run(g, workdir, jobs, 'replay_' + root)
        except Exception as e:
            res, proc, files = {}, None, {}
            notes.append('native replay failed for %s: %s' % (root, e))
        for i, v in enumerate(info['violations']):
            jid = '%s/%d' % (root, i)
            end, trace = res.get(jid, ('crash-or-build-failure', []))
            v['native_end'] = end
            expect_panic = v['kind'] == 'panic'
            if expect_panic:
                ok = end.startswith('panic:')
            elif v['kind'] == 'alloc':
                ok = None   # allocation-size obligations have no native observable; judged by the model
            else:
                ok = end == 'assert:' + v['msg']
            if ok is None:
                ok = True
                v['native_end'] = 'not-observable(alloc bound); model accepted'
            if not ok and jid not in res and proc is not None and proc.returncode != 0 and 'panic' in (proc.stdout + proc.stderr) and expect_panic:
                ok = True
            v['reproduced'] = bool(ok)
            if ok:
                reproduced += 1
                k = match_known(known, prop, root, v)
                if k is not None:
                    known_lines.append('KNOWN-FINDING: property=%s harness=%s %s' % (prop, root, k['desc']))
                    v['known'] = k['desc']
                    continue
                # persist replay artefacts
                h = hashlib.sha1(json.dumps([root, v['kind'], v['where'], v['msg']]).encode()).hexdigest()[:10]
                rd = os.path.join(replay_dir_base, '%s-%s' % (root, h))
                os.makedirs(rd, exist_ok=True)
                save_replay(rd, g, root, v, tier, workdir)
                viol_lines.append('VIOLATION property=%s replay=%s' % (prop, rd))
                violations.append(dict(harness=root, kind=v['kind'], where=v['where'], msg=v['msg'],
                                       model=v.get('model'), native_end=end, replay=rd))
            else:
                unreproduced += 1
                notes.append('UNREPRODUCED model for %s (%s %s at %s): native end = %s; model = %s' % (root, v['kind'], v['msg'], v.get('where'), end, json.dumps(v.get('model'))[:600]))
                if proc is not None and jid not in res:
                    notes.append('native output: ' + (proc.stdout + proc.stderr)[-800:])
    # ---- translator validation
    validated = 0
    val_mismatch = []
    if not a.no_validate and status == 0:
        nvec = 6 if tier == 0 else 24
        rnd = random.Random(seed)
        seeds = [0, 1] + [rnd.getrandbits(63) | 2 for _ in range(nvec - 2)]
        for g in groups:
            if g.ir_path is None:
                continue
            roots = [t['root'] for t in tasks if t['g'] is g and t['opts'].get('novalidate') != '1']
            if not roots:
                continue
            jobs = []
            for root in roots:
                for s in seeds:
                    jobs.append(dict(id='%s/%d' % (root, s), root=root, mode=1, seed=s, tier=tier, tab={}))
            try:
                nres, proc, files = native_run(g, workdir, jobs, 'validate')
            except Exception as e:
                notes.append('translator validation could not run natively for %s: %s' % (g.key, e))
                continue
            if not nres:
                notes.append('translator validation produced no native results for %s: %s' % (
                    g.key, (proc.stdout + proc.stderr)[-600:] if proc else ''))
                continue
            with mp.Pool(min(a.jobs, len(roots))) as vp:
                outs = vp.map(run_pinned, [dict(ir=g.ir_path, fq_root=g.fq[root], opts=g.roots[root],
                                                jobs=[j for j in jobs if j['root'] == root]) for root in roots])
            for lst in outs:
                for jid, end, trace in lst:
                    if jid not in nres:
                        continue   # native process died on an earlier job (a crash the interpreter cannot mirror)
                    nend, ntrace = nres[jid]
                    if end.startswith('unsupported:') or end.startswith('bound-exceeded'):
                        continue
                    if norm_end(end) == norm_end(nend) and list(trace) == list(ntrace):
                        validated += 1
                    else:
                        val_mismatch.append(dict(id=jid, interp_end=end, native_end=nend,
                                                 interp_trace=trace[-6:], native_trace=ntrace[-6:]))
    # ---- verdict
    problems = []
    for root, info in per_root.items():
        for e in info['errors']:
            problems.append('%s: %s' % (root, e))
        for x in info['inconclusive']:
            problems.append('%s: INCONCLUSIVE %s %s %s' % (root, x.get('kind'), x.get('where'), x.get('msg')))
        if info['missing_reach'] and not info['errors']:
            problems.append('%s: VACUOUS reach tags never reached: %s (ends=%s)' % (root, info['missing_reach'], info['ends']))
        if info['paths'] == 0 and not info['errors']:
            problems.append('%s: no path explored' % root)
    if val_mismatch:
        for m in val_mismatch[:10]:
            problems.append('TRANSLATOR MISMATCH %s' % json.dumps(m))
    if unreproduced:
        problems.append('%d solver model(s) did not reproduce natively' % unreproduced)
    for line in known_lines:
        print(line)
    for p in problems:
        print('ENGINE:', p)
    for line in viol_lines:
        print(line)
    if viol_lines:
        status = 1
    elif problems and status == 0:
        status = 3
    wall = time.time() - t_start
    # ---- evidence
    fn_list = sorted(fn_set.values(), key=lambda f: -f[3])
    repo_fns = [dict(name=f[0], file=f[1].replace(REPO + '/', ''), line=f[2], ssa_instrs=f[3]) for f in fn_list
                if f[1].startswith(REPO) and '/zz_verif_' not in f[1]]
    ev = dict(
        property_id=prop, tier=a.tier, seed=seed, level='model_checking',
        coverage=dict(
            states=max(tot['paths'], 0), transitions=tot['instrs'],
            traces_validated_against_impl=validated + reproduced,
            samples=samples or [dict(note='no obligation discharged')],
            obligations=tot['obligations'], discharged=tot['discharged'], inconclusive=tot['inconclusive'],
            queries=tot['queries'], solver_time_s=round(tot['solver_s'], 2),
            harnesses={r: dict(paths=i['paths'], ends=i['ends'], reached=sorted(i['reached']), wall_s=round(i['wall'], 2),
                               opts=t_opts(tasks, r)) for r, i in per_root.items()},
            functions_encoded=repo_fns[:400], functions_encoded_count=len(repo_fns),
            bounds_and_cuts=sorted(cuts),
            engine='go/ssa -> JSON IR -> path-forking symbolic execution -> z3 %s (in-process); every SAT model replayed natively with go test -overlay' % z3ver(),
            translator_validation=dict(vectors_agreeing=validated, mismatches=len(val_mismatch)),
            known_findings_matched=known_lines,
            second_solver_cross_check=dict(queries=tot['x_queries'], z3_4_8_12_agree=tot['x_z3old_agree'],
                                           z3_4_8_12_unknown=tot['x_z3old_unknown'], cvc5_agree=tot['x_cvc5_agree'],
                                           cvc5_unknown=tot['x_cvc5_unknown'], disagreements=tot['x_disagree'],
                                           note='sampled unsat obligations (the first VERIF_XCHECK of each harness, thorough tier: 12) re-decided from their SMT-LIB2 text by /usr/bin/z3 4.8.12 and cvc5 1.0.3, 20 s each; an error line or timeout counts as unknown, a sat answer as a disagreement (exit 3)'),
            exhaustive=False,
        ),
        assumptions=[
            'go/ssa (x/tools v0.29.0), z3 and the Go toolchain are trusted',
            'hash functions are uninterpreted functions (determinism only) on symbolic input; math/big, time, sync are modelled by intrinsics',
            'single-threaded execution: locks and atomics are plain operations',
            'claims hold only within the bounds written in each harness (sizes, unwinding) and listed under bounds_and_cuts',
        ] + notes[:20],
        wall_s=round(wall, 2),
        violations=len(viol_lines),
    )
    if status == 3:
        ev['coverage']['engine_problems'] = problems[:40]
    if ev['coverage']['states'] < 1:
        ev['coverage']['states'] = 1 if False else ev['coverage']['states']
    json.dump(ev, open(evid_path, 'w'), indent=1, default=str)
    if tier == 1 and not os.environ.get('VERIF_EVIDENCE_DIR') and not a.only:
        # keep the last complete thorough-tier evidence next to the (later overwritten) per-run file
        td = os.path.join(VERIF, 'evidence_thorough')
        os.makedirs(td, exist_ok=True)
        json.dump(ev, open(os.path.join(td, prop + '.json'), 'w'), indent=1, default=str)
    print('%s tier=%s: %d harnesses, %d paths, %d/%d obligations discharged, %d inconclusive, %d violation(s), '
          '%d known, validation %d ok / %d mismatch, %.1fs (solver %.1fs)'
          % (prop, a.tier, len(per_root), tot['paths'], tot['discharged'], tot['obligations'], tot['inconclusive'],
             len(viol_lines), len(known_lines), validated, len(val_mismatch), wall, tot['solver_s']))
    if not a.keep:
        shutil.rmtree(workdir, ignore_errors=True)
    return status


def t_opts(tasks, root):
    for t in tasks:
        if t['root'] == root:
            return t['opts']
    return {}


def z3ver():
    try:
        import z3
        return z3.get_version_string()
    except Exception:
        return '?'


def save_replay(rd, g, root, v, tier, workdir):
    """self-contained replay directory: harness files, prelude, test, overlay, job, run.sh"""
    ov = {}
    pre = os.path.join(rd, 'prelude.go')
    shutil.copy(prelude_for(g, workdir), pre)
    ov[os.path.join(g.absdir, 'zz_verif_prelude.go')] = pre
    for f in g.files:
        dst = os.path.join(rd, os.path.basename(f))
        shutil.copy(f, dst)
        ov[os.path.join(g.absdir, 'zz_verif_' + os.path.basename(f))] = dst
    for pkgdir, f in g.extras:
        dst = os.path.join(rd, 'x_' + os.path.basename(f))
        shutil.copy(f, dst)
        ov[os.path.normpath(os.path.join(g.moddir, pkgdir, 'zz_verif_x_' + os.path.basename(f)))] = dst
    for src, rw in native_rewrites(g, workdir).items():
        dst = os.path.join(rd, 'rw_' + os.path.basename(src))
        shutil.copy(rw, dst)
        ov[src] = dst
    rootmap = '\n'.join('\t\t"%s": %s,' % (r, r) for r in sorted(g.roots))
    t = open(os.path.join(VERIF, 'engine', 'replay_test.go.tmpl')).read()
    t = t.replace('PKGNAME', g.pkgname).replace('ROOTMAP', rootmap)
    tp = os.path.join(rd, 'replay_test.go')
    open(tp, 'w').write(t)
    ov[os.path.join(g.absdir, 'zz_verif_replay_test.go')] = tp
    json.dump({'Replace': ov}, open(os.path.join(rd, 'overlay.json'), 'w'), indent=1)
    job = dict(id='replay', root=root, mode=0, seed=0, tier=tier, tab=v.get('model', {}))
    open(os.path.join(rd, 'jobs.jsonl'), 'w').write(json.dumps(job) + '\n')
    rel = {}
    rewrites = {}
    for virt, real in ov.items():
        r_ = os.path.relpath(virt, REPO)
        if os.path.basename(real).startswith('rw_'):
            rewrites[r_] = REWRITE_SPECS.get(virt, '')
        else:
            rel[r_] = os.path.basename(real)
    meta = dict(property=os.path.basename(os.path.dirname(rd)), harness=root, kind=v['kind'], where=v['where'],
                msg=v['msg'], model=v.get('model'), module=g.module, pkgdir=g.pkgdir,
                expect='panic' if v['kind'] == 'panic' else 'assert:' + v['msg'],
                rel_overlay=rel, rewrites=rewrites)
    json.dump(meta, open(os.path.join(rd, 'meta.json'), 'w'), indent=1)
    sh = """#!/bin/bash
# replays the solver model against the real build; exit 1 if the violation reproduces
cd %s
export GOFLAGS=-mod=mod GOPROXY=off GOTOOLCHAIN=auto VERIF_JOBS=%s/jobs.jsonl VERIF_OUT=%s/out.jsonl
go test -vet=off -count=1 -run '^TestVerifReplay$' -overlay %s/overlay.json ./%s
cat %s/out.jsonl
""" % (g.moddir, rd, rd, rd, g.pkgdir, rd)
    open(os.path.join(rd, 'run.sh'), 'w').write(sh)
    os.chmod(os.path.join(rd, 'run.sh'), 0o755)


def replay_saved(rd):
    rd = os.path.abspath(rd)
    meta = json.load(open(os.path.join(rd, 'meta.json')))
    outp = os.path.join(rd, 'out.jsonl')
    if os.path.exists(outp):
        os.remove(outp)
    if 'rel_overlay' in meta:
        # rebuild the overlay against the current tree (the saved one may name a scratch worktree that is gone), and
        # regenerate the environment-stub forwarders from the current sources
        ov = {os.path.join(REPO, k): os.path.join(rd, v) for k, v in meta['rel_overlay'].items()}
        for relsrc, spec in meta.get('rewrites', {}).items():
            dst = os.path.join(rd, 'rw_' + os.path.basename(relsrc))
            rr = subprocess.run([EXPORTER, '-rewrite', os.path.join(REPO, relsrc), '-spec', spec, '-o', dst],
                                capture_output=True, text=True)
            if rr.returncode:
                print('replay could not be prepared: ' + rr.stderr)
                return 3
            ov[os.path.join(REPO, relsrc)] = dst
        ovp = os.path.join(rd, 'overlay_now.json')
        json.dump({'Replace': ov}, open(ovp, 'w'), indent=1)
        env = dict(GOENV, VERIF_JOBS=os.path.join(rd, 'jobs.jsonl'), VERIF_OUT=outp)
        moddir = os.path.normpath(os.path.join(REPO, meta['module']))
        r = subprocess.run(['go', 'test', '-vet=off', '-count=1', '-run', '^TestVerifReplay$', '-overlay', ovp,
                            './' + meta['pkgdir']], cwd=moddir, env=env, capture_output=True, text=True)
    else:
        r = subprocess.run(['bash', os.path.join(rd, 'run.sh')], capture_output=True, text=True)
    print((r.stdout + r.stderr)[-3000:])
    end = None
    if os.path.exists(outp):
        for line in open(outp):
            if line.strip():
                end = json.loads(line)['end']
    exp = meta['expect']
    hit = end is not None and (end.startswith('panic:') if exp == 'panic' else end == exp)
    if hit:
        print('VIOLATION property=%s replay=%s' % (meta['property'], rd))
        return 1
    if end is None:
        print('replay could not run (no native result): cannot decide')
        return 3
    print('replay did not reproduce (native end: %s)' % end)
    return 0


if __name__ == '__main__':
    sys.exit(main())
