"""Path-forking symbolic executor over the ssaexport JSON IR.

Stateless re-execution: a path is a decision vector; the executor runs the
harness from its first instruction following the vector and, at the first
undecided symbolic branch, asks the solver which sides are feasible, takes one
and queues the other.  See DESIGN.md section 2.2.
"""
import base64
import sys
import os
import time

import z3

from values import *  # noqa

sys.setrecursionlimit(20000)

INTRINSICS = {}          # exact function name -> handler(ex, args, ins, where)
GLOBAL_FIXUPS = {}       # global name suffix -> fn(ex) -> value stored in the global
PREFIX_INTRINSICS = []   # (prefix, handler)


def intrinsic(*names):
    def deco(fn):
        for n in names:
            INTRINSICS[n] = fn
        return fn
    return deco


def prefix_intrinsic(*prefixes):
    def deco(fn):
        for p in prefixes:
            PREFIX_INTRINSICS.append((p, fn))
        return fn
    return deco


# ---------------------------------------------------------------- types
_WIDTH = {'bool': 1, 'int8': 8, 'uint8': 8, 'byte': 8, 'int16': 16, 'uint16': 16, 'int32': 32, 'uint32': 32,
          'rune': 32, 'int64': 64, 'uint64': 64, 'int': 64, 'uint': 64, 'uintptr': 64, 'untyped int': 64,
          'untyped rune': 32}


class Types:
    def __init__(self, tab):
        self.tab = tab
        self._under = {}
        self._kind = {}
        self.by_str = {}
        for e in tab:
            self.by_str.setdefault(e['str'], e['id'])

    def under(self, t):
        u = self._under.get(t)
        if u is None:
            e = self.tab[t]
            while e['kind'] in ('named', 'alias'):
                e = self.tab[e['under']]
            self._under[t] = u = e
        return u

    def kind(self, t):
        k = self._kind.get(t)
        if k is None:
            e = self.under(t)
            k = e['kind']
            if k == 'basic':
                info = e['info']
                if info & 1:
                    k = 'bool'
                elif info & 2:
                    k = 'int'
                elif info & 8:
                    k = 'float'
                elif info & 32:
                    k = 'string'
                elif e['name'] == 'unsafe.Pointer' or e['name'] == 'Pointer':
                    k = 'unsafeptr'
                elif e['name'] == 'untyped nil':
                    k = 'nil'
                else:
                    k = 'basic:' + e['name']
            self._kind[t] = k
        return k

    def canon(self, t):
        e = self.tab[t]
        while e['kind'] == 'alias':
            e = self.tab[e['under']]
        return e['str']

    def named(self, t):
        """fully qualified name of a named type (or None)"""
        e = self.tab[t]
        while e['kind'] == 'alias':
            e = self.tab[e['under']]
        if e['kind'] == 'named':
            return (e.get('pkg', '') + '.' + e['name']) if e.get('pkg') else e['name']
        return None

    def width(self, t):
        e = self.under(t)
        return _WIDTH[e['name']]

    def signed(self, t):
        e = self.under(t)
        return e['kind'] == 'basic' and (e['info'] & 2) != 0 and (e['info'] & 4) == 0

    def elem(self, t):
        return self.under(t)['elem']

    def fields(self, t):
        return self.under(t)['fields']


class SymIdx:
    """symbolic element index inside a pointer path: term (BV64) known to lie in [lo, hi)"""
    __slots__ = ('term', 'lo', 'hi')

    def __init__(self, term, lo, hi):
        self.term, self.lo, self.hi = term, lo, hi


class Frame:
    __slots__ = ('f', 'regs', 'defers')

    def __init__(self, f):
        self.f, self.regs, self.defers = f, {}, []


SPEC_OPS = {'BinOp', 'UnOp', 'Convert', 'ChangeType', 'FieldAddr', 'Field', 'IndexAddr', 'Index', 'Extract',
            'Slice', 'Lookup', 'ChangeInterface', 'MakeInterface', 'TypeAssert'}


# ---------------------------------------------------------------- executor
class Exec:
    def __init__(self, ir, opts=None):
        opts = opts or {}
        self.ir = ir
        self.T = Types(ir['types'])
        self.funcs = ir['funcs']
        self.unwind = opts.get('unwind', 300)
        self.max_steps = opts.get('max_steps', 4_000_000)
        self.max_decisions = opts.get('max_decisions', 2000)
        self.intmode = bool(opts.get('intmode'))
        self.bigw = opts.get('bigw', 320)
        self.qtimeout = int(opts.get('qtimeout', 60)) * 1000
        self.overrides = opts.get('overrides', {})
        self.expect_panic = bool(opts.get('expect_panic'))
        self.affine = None
        if opts.get('affine'):
            import affine
            self.affine = affine.Normalizer()
        self.pinned = None        # concrete replay of nondets (translator validation)
        self.stats = dict(paths=0, instrs=0, queries=0, solver_s=0.0, obligations=0, discharged=0,
                          inconclusive=0, cuts=0, x_queries=0, x_z3old_agree=0, x_z3old_unknown=0,
                          x_cvc5_agree=0, x_cvc5_unknown=0, x_disagree=0)
        # second-solver cross-check: the first few unsat obligations seen by this executor are re-decided by the
        # system z3 4.8.12 and by cvc5 from their SMT-LIB2 text (VERIF_XCHECK = queries per executor, 0 = off)
        self.xcheck_left = int(os.environ.get('VERIF_XCHECK', '0') or 0)
        self.xcheck_spent = 0.0   # seconds spent in the other solvers; sampling stops after 90 s per harness
        self.results = []         # violations / inconclusives
        self.viol_seen = set()
        self.fn_used = {}
        self.base_heap = None
        self.base_globals = None
        self.lenient = False
        self.spec = False
        self.uf_cache = {}
        self.alloc_bound = None
        self.cut_notes = set()
        self.samples = []

    # ------------------------------------------------------------ zero values
    def zero(self, t):
        T = self.T
        k = T.kind(t)
        if k == 'bool':
            return False
        if k == 'int':
            return 0
        if k == 'string':
            return b''
        if k == 'float':
            return 0.0
        if k == 'struct':
            nm = T.named(t)
            if nm == 'math/big.Int':
                return BigV(False, 0)
            if nm == 'time.Time':
                return TimeV(mask(-62135596800, 64), 0)
            return [self.zero(f['type']) for f in T.fields(t)]
        if k == 'array':
            e = T.under(t)
            n = e['len']
            ek = T.kind(e['elem'])
            if ek == 'int':
                if n > 65536:
                    return SparseArr(n, 0)
                return [0] * n
            return [self.zero(e['elem']) for _ in range(n)]
        if k in ('ptr', 'slice', 'map', 'iface', 'func', 'chan', 'unsafeptr', 'nil'):
            return NIL
        if k == 'tuple':
            return [self.zero(x) for x in T.under(t)['elems']]
        raise Unsupported('zero of kind ' + k)

    # ------------------------------------------------------------ solver
    def new_solver(self):
        s = z3.Solver()
        s.set('timeout', self.qtimeout)
        return s

    def add(self, c):
        self.pc.append(c)
        self.solver.add(c)

    def check(self, extra=None):
        t = time.time()
        self.stats['queries'] += 1
        r = self.solver.check(extra) if extra is not None else self.solver.check()
        self.stats['solver_s'] += time.time() - t
        return r

    def check_hard(self, neg):
        """one-shot (non-incremental) query on a fresh solver: path condition and neg"""
        t = time.time()
        self.stats['queries'] += 1
        s = z3.Solver()
        s.set('timeout', self.qtimeout)
        for c in self.pc:
            s.add(c)
        s.add(neg)
        r = s.check()
        self.stats['solver_s'] += time.time() - t
        return r, s

    def feasible(self, cond):
        r = self.check(cond)
        if r == z3.unknown:
            r, _ = self.check_hard(cond)
            if r == z3.unknown:
                raise PathEnd('inconclusive', 'feasibility unknown')
        return r == z3.sat

    def branch(self, cond, what=''):
        """Decide a boolean; returns Python bool.  Uses / extends the decision vector."""
        if not isinstance(cond, z3.ExprRef):
            return bool(cond)
        cond = z3.simplify(cond)
        if z3.is_true(cond):
            return True
        if z3.is_false(cond):
            return False
        if self.spec:
            raise SpecFail()
        if self.affine is not None:
            cond = z3.simplify(self.affine.simplify(cond))
            if z3.is_true(cond):
                return True
            if z3.is_false(cond):
                return False
        if self.lenient:
            raise Unsupported('symbolic branch in init')
        if self.dpos < len(self.decisions):
            d = self.decisions[self.dpos]
            self.dpos += 1
            if not isinstance(d, bool):
                raise RuntimeError('decision vector out of sync at %s' % what)
            self.add(cond if d else z3.Not(cond))
            return d
        if len(self.decisions) >= self.max_decisions:
            raise PathEnd('bound-exceeded', 'more than %d decisions on one path' % self.max_decisions)
        can_t = self.feasible(cond)
        can_f = self.feasible(z3.Not(cond)) if can_t else True
        if can_t and can_f:
            self.pending.append(self.decisions[:self.dpos] + [False])
            d = True
        elif can_t:
            d = True
        else:
            d = False
        self.decisions = self.decisions[:self.dpos] + [d]
        self.dpos += 1
        self.add(cond if d else z3.Not(cond))
        return d

    def concretize(self, v, what, limit=64, maxval=None):
        """Fork over the feasible values of v in increasing (unsigned) order; at most `limit` values and,
        when maxval is given, only values <= maxval (the rest of the range is cut and recorded).
        Returns a Python int (unsigned repr)."""
        v = simp(v)
        if not isinstance(v, z3.ExprRef):
            return v
        if self.spec:
            raise SpecFail()
        if self.lenient:
            raise Unsupported('symbolic value in init')
        isint = z3.is_int(v)
        lb, cnt = 0, 0
        if self.dpos < len(self.decisions):
            d = self.decisions[self.dpos]
            if isinstance(d, tuple) and d[0] == 'v':
                self.dpos += 1
                self.add(v == d[1])
                return d[1]
            if not (isinstance(d, tuple) and d[0] == 'ge'):
                raise RuntimeError('decision vector out of sync (concretize) at %s' % what)
            lb, cnt = d[1], d[2]
            self.decisions = self.decisions[:self.dpos]
        def ge(x):
            return (v >= x) if isint else z3.UGE(v, z3.BitVecVal(x, v.size()))
        def lt(x):
            return (v < x) if isint else z3.ULT(v, z3.BitVecVal(x, v.size()))
        if lb:
            self.add(ge(lb))
        r = self.check()
        if r == z3.unknown:
            raise PathEnd('inconclusive', 'concretize unknown')
        if r == z3.unsat:
            raise PathEnd('infeasible')
        if cnt >= limit:
            self.stats['cuts'] += 1
            self.cut_notes.add('%s: more than %d values' % (what.split(' blockchain.')[0], limit))
            raise PathEnd('cut', 'concretize %s: more than %d values' % (what, limit))
        m = self.solver.model().eval(v, model_completion=True).as_long()
        # minimise by bisection
        lo = lb
        while lo < m:
            mid = (lo + m) // 2
            r = self.check(lt(mid + 1))
            if r == z3.sat:
                m2 = self.solver.model().eval(v, model_completion=True).as_long()
                m = min(m2, mid)
                if m2 <= mid:
                    m = m2
            elif r == z3.unsat:
                lo = mid + 1
            else:
                raise PathEnd('inconclusive', 'concretize unknown')
        k = m
        if maxval is not None and k > maxval:
            self.stats['cuts'] += 1
            self.cut_notes.add('%s: values above %d not explored' % (what.split(' blockchain.')[0], maxval))
            raise PathEnd('cut', 'concretize %s: value above %d' % (what, maxval))
        self.pending.append(self.decisions[:self.dpos] + [('ge', k + 1, cnt + 1)])
        self.decisions = self.decisions[:self.dpos] + [('v', k)]
        self.dpos += 1
        self.add(v == k)
        return k

    def unique_value(self, v):
        """the single feasible value of v under the path condition, or None if there are several"""
        v = simp(v)
        if not isinstance(v, z3.ExprRef):
            return v
        if self.check() != z3.sat:
            return None
        k = self.solver.model().eval(v, model_completion=True).as_long()
        if self.check(v != k) == z3.unsat:
            return k
        return None

    def obligation(self, cond, kind, where, msg=''):
        """cond must hold on this path; checks path /\\ not cond."""
        self.stats['obligations'] += 1
        if not isinstance(cond, z3.ExprRef):
            if cond:
                self.stats['discharged'] += 1
                return
            self.violation(kind, where, msg, self.model_or_none())
            raise PathEnd('violated', msg)
        cond = z3.simplify(cond)
        if self.affine is not None and not z3.is_true(cond):
            cond = z3.simplify(self.affine.simplify(cond))
        if z3.is_true(cond):
            self.stats['discharged'] += 1
            if len(self.samples) < 6:
                self.samples.append({'obligation': kind, 'at': where, 'msg': msg, 'verdict': 'valid after simplification',
                                     'path_decisions': len(self.decisions)})
            return
        neg = z3.Not(cond)
        r = self.check(neg)
        model = self.solver.model() if r == z3.sat else None
        if r == z3.unknown:
            r, s = self.check_hard(neg)
            if r == z3.sat:
                model = s.model()
        if r == z3.unsat:
            self.stats['discharged'] += 1
            if self.xcheck_left > 0 and self.xcheck_spent < 90:
                self.xcheck_left -= 1
                t_x = time.time()
                self.cross_check(neg, kind, where, msg)
                self.xcheck_spent += time.time() - t_x
            if len(self.samples) < 6:
                self.samples.append({'obligation': kind, 'at': where, 'msg': msg, 'verdict': 'unsat',
                                     'path_decisions': len(self.decisions)})
        elif r == z3.unknown:
            self.stats['inconclusive'] += 1
            self.results.append(dict(status='inconclusive', kind=kind, where=where, msg=msg))
        else:
            self.violation(kind, where, msg, model)
        self.add(cond)   # continue on the non-violating side

    def cross_check(self, neg, kind, where, msg):
        """re-decide an unsat obligation with two other solvers from its SMT-LIB2 text; a 'sat' answer is a
        disagreement and makes the run inconclusive"""
        import subprocess
        s2 = z3.Solver()
        for c in self.pc:
            s2.add(c)
        s2.add(neg)
        try:
            txt = s2.to_smt2()
        except Exception:
            return
        self.stats['x_queries'] += 1
        for name, cmd, pre in (('z3old', ['/usr/bin/z3', '-in', '-T:20'], ''),
                               ('cvc5', ['/usr/bin/cvc5', '--lang=smt2', '--tlimit=20000'], '(set-logic ALL)\n')):
            try:
                out = subprocess.run(cmd, input=pre + txt, capture_output=True, text=True, timeout=40).stdout
            except Exception:
                out = 'unknown'
            lines = [l.strip() for l in out.split('\n') if l.strip()]
            verdict = lines[0] if lines else 'unknown'
            if '(error' in out:
                verdict = 'unknown'     # an error line makes the answer inconclusive, whatever else was printed
            if verdict == 'unsat':
                self.stats['x_%s_agree' % name] += 1
            elif verdict == 'sat':
                self.stats['x_disagree'] += 1
                self.stats['inconclusive'] += 1
                self.results.append(dict(status='inconclusive', kind='solver-disagreement', where=where,
                                         msg='%s answers sat where z3 %s answers unsat: %s' % (name, z3.get_version_string(), msg)))
            else:
                self.stats['x_%s_unknown' % name] += 1

    def model_or_none(self):
        r = self.check()
        return self.solver.model() if r == z3.sat else None

    def model_values(self, model):
        vals = {}
        if model is not None:
            for n, v in self.nondets.items():
                x = model.eval(v, model_completion=True)
                if z3.is_bool(x):
                    vals[n] = 1 if z3.is_true(x) else 0
                else:
                    vals[n] = x.as_long()
        return vals

    def violation(self, kind, where, msg, model):
        key = (kind, where, msg)
        if key in self.viol_seen:
            return
        self.viol_seen.add(key)
        self.results.append(dict(status='violation', kind=kind, where=where, msg=msg,
                                 model=self.model_values(model), have_model=model is not None))

    # ------------------------------------------------------------ memory
    def new_obj(self, val):
        self.heap.append(val)
        return len(self.heap) - 1

    def load(self, p, where, t):
        if p is NIL:
            raise PathEnd('panic', 'nil pointer dereference at %s' % where)
        if not isinstance(p, Ptr):
            raise Unsupported('load through %r at %s' % (p, where))
        return self.load_path(self.heap[p.obj], p.path, t)

    def load_path(self, v, path, t):
        for n, c in enumerate(path):
            if isinstance(c, SymIdx):
                rest = path[n + 1:]
                if t is not None and self.T.kind(t) in ('ptr', 'slice', 'map', 'iface', 'func', 'chan'):
                    # reference-typed element at a symbolic index: fork over the index
                    k = self.concretize(c.term, 'symbolic index of reference-typed element', 4096)
                    return self.load_path(v[k], rest, t)
                vals = [self.load_path(v[i], rest, t) for i in range(c.lo, c.hi)]
                return self.select_chain(c.term, c.lo, vals, t)
            v = v[c]
        return v

    def select_chain(self, idx, lo, vals, t):
        """vals[i] is the value at index lo+i; builds an ite chain on idx (BV64)"""
        if len(vals) == 1:
            return vals[0]
        # run-length grouping when neighbouring values are identical concrete scalars
        runs = []   # (last_index, value)
        for i, x in enumerate(vals):
            if runs and not isinstance(x, (list, z3.ExprRef)) and type(runs[-1][1]) is type(x) and runs[-1][1] == x \
                    and not isinstance(x, (Ptr, SliceV, Iface, Closure)):
                runs[-1] = (lo + i, x)
            else:
                runs.append((lo + i, x))
        r = runs[-1][1]
        for hi, x in reversed(runs[:-1]):
            r = self.ite_t(z3.ULE(idx, z3.BitVecVal(hi, 64)), x, r, t)
        return r

    def ite_t(self, c, a, b, t):
        """typed if-then-else; raises Unsupported when the two values cannot be merged"""
        if a is b:
            return a
        T = self.T
        k = T.kind(t)
        if k == 'struct':
            if isinstance(a, BigV) or isinstance(b, BigV):
                from intrinsics import big_ite
                return big_ite(self, c, a, b)
            if isinstance(a, TimeV):
                return TimeV(self.ite_t(c, a.sec, b.sec, self.t_int64), self.ite_t(c, a.nsec, b.nsec, self.t_int64))
            return [self.ite_t(c, x, y, f['type']) for x, y, f in zip(a, b, T.fields(t))]
        if k == 'array':
            et = T.elem(t)
            return [self.ite_t(c, x, y, et) for x, y in zip(a, b)]
        if k == 'bool':
            if not isinstance(a, z3.ExprRef) and not isinstance(b, z3.ExprRef) and a == b:
                return a
            return z3.If(c, to_bool(a), to_bool(b))
        if k == 'int':
            if not isinstance(a, z3.ExprRef) and not isinstance(b, z3.ExprRef):
                if a == b:
                    return a
                if self.intmode:
                    return z3.If(c, z3.IntVal(a), z3.IntVal(b))
            if self.intmode:
                return z3.If(c, self.ib(a), self.ib(b))
            w = T.width(t)
            return z3.If(c, to_bv(a, w), to_bv(b, w))
        if k == 'string':
            if isinstance(a, bytes) and isinstance(b, bytes) and a == b:
                return a
            if isinstance(a, Opaque) or isinstance(b, Opaque):
                return Opaque('ite-string')
            ba, bb = str_bytes(a), str_bytes(b)
            if len(ba) == len(bb):
                return mkstr([x if (not is_sym(x) and not is_sym(y) and x == y) else z3.If(c, to_bv(x, 8), to_bv(y, 8))
                              for x, y in zip(ba, bb)])
            return Opaque('ite-string')
        if k == 'float':
            if a == b:
                return a
            raise Unsupported('ite over floats')
        if k == 'tuple':
            return [self.ite_t(c, x, y, et) for x, y, et in zip(a, b, T.under(t)['elems'])]
        # reference kinds
        if a is NIL and b is NIL:
            return NIL
        if isinstance(a, Closure) and isinstance(b, Closure) and a.fn == b.fn and a.bind == b.bind:
            return a
        if isinstance(a, Ptr) and isinstance(b, Ptr) and a.obj == b.obj and a.path == b.path:
            return a
        if isinstance(a, SliceV) and isinstance(b, SliceV) and (a.obj, a.base, a.off, a.len, a.cap) == (b.obj, b.base, b.off, b.len, b.cap):
            return a
        if isinstance(a, Iface) and isinstance(b, Iface) and T.canon(a.t) == T.canon(b.t):
            return Iface(a.t, self.ite_t(c, a.v, b.v, a.t))
        if self.spec:
            raise SpecFail()
        return Opaque('ite-ref')

    def store(self, p, val, where, vt):
        if p is NIL:
            raise PathEnd('panic', 'nil pointer dereference (store) at %s' % where)
        if self.spec:
            raise SpecFail()
        if not p.path:
            self.heap[p.obj] = val
            return
        self.heap[p.obj] = self._store(self.heap[p.obj], p.path, val, vt, None)

    def _store(self, cur, path, val, vt, guard):
        if not path:
            return val if guard is None else self.ite_t(guard, val, cur, vt)
        c = path[0]
        new = arr_copy(cur)
        if isinstance(c, SymIdx):
            for i in range(c.lo, c.hi):
                g = c.term == z3.BitVecVal(i, 64)
                g = g if guard is None else z3.And(guard, g)
                new[i] = self._store(cur[i], path[1:], val, vt, g)
            return new
        new[c] = self._store(cur[c], path[1:], val, vt, guard)
        return new

    # ------------------------------------------------------------ arithmetic
    def ib(self, v):
        return v if isinstance(v, z3.ExprRef) else z3.IntVal(v)

    def isv(self, v, w):
        v = self.ib(v)
        return z3.If(v >= 2 ** (w - 1), v - 2 ** w, v)

    def binop_int(self, op, x, y, t, xt):
        """Int backend: values are mathematical integers in [0, 2^w) (unsigned representation)."""
        T = self.T
        w = T.width(xt)
        sg = T.signed(xt)
        M = 2 ** w
        a, b = self.ib(x), self.ib(y)
        if op in ('<<', '>>'):
            if isinstance(y, z3.ExprRef):
                k = self.unique_value(y)
                if k is None:
                    # several shift counts are possible: keep the shift as a power term (decidable only if
                    # the value is never constrained - e.g. it is only formatted into a log message)
                    p2 = z3.ToInt(z3.IntVal(2) ** y)
                    if op == '<<':
                        return z3.If(y < w, (a * p2) % M, 0)
                    if sg:
                        raise Unsupported('int-mode signed >>')
                    return z3.If(y < w, a / p2, 0)
                y = k
            if op == '<<':
                return (a * (2 ** y)) % M if y < w else 0
            if sg:
                raise Unsupported('int-mode signed >>')
            return a / (2 ** y) if y < w else 0
        if op == '+':
            return (a + b) % M
        if op == '-':
            return (a - b) % M
        if op == '*':
            return (a * b) % M
        if op == '&':
            for u, v in ((a, y), (b, x)):
                if not isinstance(v, z3.ExprRef):
                    if (v & (v + 1)) == 0:
                        return u % (v + 1)
                    # general constant: sum over the runs of one-bits
                    r, bit = 0, 0
                    while (v >> bit):
                        if (v >> bit) & 1:
                            lo = bit
                            while (v >> bit) & 1:
                                bit += 1
                            r = r + ((u / (2 ** lo)) % (2 ** (bit - lo))) * (2 ** lo)
                        else:
                            bit += 1
                    return r
            raise Unsupported('int-mode & of two symbolic values')
        if op == '|':
            # only disjoint-bit ors can be expressed: x | c where x is known to be a multiple of 2^k > c
            raise Unsupported('int-mode |')
        if op in ('<', '<=', '>', '>='):
            if sg:
                a, b = self.isv(a, w), self.isv(b, w)
            return {'<': a < b, '<=': a <= b, '>': a > b, '>=': a >= b}[op]
        if op in ('/', '%'):
            if isinstance(y, z3.ExprRef):
                if not self.branch(b != 0, 'div0'):
                    raise PathEnd('panic', 'integer divide by zero')
            elif y == 0:
                raise PathEnd('panic', 'integer divide by zero')
            if sg:
                sa, sb = self.isv(a, w), self.isv(b, w)
                # Go truncated division
                q = z3.If(sa >= 0, z3.If(sb > 0, sa / sb, -(sa / -sb)), z3.If(sb > 0, -((-sa) / sb), (-sa) / (-sb)))
                r = sa - q * sb
                res = q if op == '/' else r
                return z3.If(res < 0, res + M, res) % M
            return (a / b) if op == '/' else (a % b)
        raise Unsupported('int-mode binop ' + op)

    def binop(self, op, x, y, t, xt, yt):
        T = self.T
        kx = T.kind(xt)
        if op in ('==', '!='):
            r = self.equal(x, y, xt)
            if op == '==':
                return r
            return z3.Not(r) if isinstance(r, z3.ExprRef) else (not r)
        if kx == 'bool':
            # && and || never reach SSA as BinOp; & | ^ on bools can
            a, b = to_bool(x), to_bool(y)
            if op == '&':
                return simp(z3.And(a, b))
            if op == '|':
                return simp(z3.Or(a, b))
            if op == '^':
                return simp(z3.Xor(a, b))
            raise Unsupported('bool binop ' + op)
        if kx == 'string':
            if op == '+':
                if isinstance(x, Opaque) or isinstance(y, Opaque):
                    return Opaque('concat')
                if isinstance(x, bytes) and isinstance(y, bytes):
                    return x + y
                return mkstr(str_bytes(x) + str_bytes(y))
            if op in ('<', '<=', '>', '>='):
                if isinstance(x, bytes) and isinstance(y, bytes):
                    return {'<': x < y, '<=': x <= y, '>': x > y, '>=': x >= y}[op]
                raise Unsupported('symbolic string ordering')
            raise Unsupported('string op ' + op)
        if kx == 'float':
            if isinstance(x, Opaque) or isinstance(y, Opaque):
                if op in ('+', '-', '*', '/'):
                    return Opaque('float arithmetic on opaque value')
                raise Unsupported('comparison of opaque floats')
            if isinstance(x, z3.ExprRef) or isinstance(y, z3.ExprRef):
                raise Unsupported('symbolic float')
            if op == '+':
                return x + y
            if op == '-':
                return x - y
            if op == '*':
                return x * y
            if op == '/':
                return x / y
            return {'<': x < y, '<=': x <= y, '>': x > y, '>=': x >= y}[op]
        if kx != 'int':
            raise Unsupported('binop %s on %s' % (op, kx))
        xs, ys = isinstance(x, z3.ExprRef), isinstance(y, z3.ExprRef)
        if self.intmode and (xs or ys):
            return self.binop_int(op, x, y, t, xt)
        w = T.width(xt)
        sg = T.signed(xt)
        if op in ('<<', '>>'):
            if not ys:
                # Go: negative signed shift count panics
                if T.signed(yt) and sval(y, T.width(yt)) < 0:
                    raise PathEnd('panic', 'negative shift amount')
                if not xs:
                    if op == '<<':
                        return mask(x << y, w) if y < w else 0
                    if sg:
                        return mask(sval(x, w) >> min(y, w - 1), w)
                    return x >> y if y < w else 0
                if y >= w:
                    if op == '<<' or not sg:
                        return 0
                    y = w - 1
                yy = z3.BitVecVal(y, w)
                if op == '<<':
                    return x << yy
                return (x >> yy) if sg else z3.LShR(x, yy)
            yw = y.size()
            if T.signed(yt):
                if not self.branch(y >= 0, 'shift count sign'):
                    raise PathEnd('panic', 'negative shift amount')
            yy = z3.ZeroExt(w - yw, y) if yw < w else (z3.Extract(w - 1, 0, y) if yw > w else y)
            big = z3.UGE(y, z3.BitVecVal(w, yw)) if (1 << yw) > w else z3.BoolVal(False)
            xx = to_bv(x, w)
            if op == '<<':
                return z3.If(big, z3.BitVecVal(0, w), xx << yy)
            if sg:
                return z3.If(big, xx >> z3.BitVecVal(w - 1, w), xx >> yy)
            return z3.If(big, z3.BitVecVal(0, w), z3.LShR(xx, yy))
        if not xs and not ys:
            a, b = (sval(x, w), sval(y, w)) if sg else (x, y)
            if op == '+':
                return mask(a + b, w)
            if op == '-':
                return mask(a - b, w)
            if op == '*':
                return mask(a * b, w)
            if op == '&':
                return x & y
            if op == '|':
                return x | y
            if op == '^':
                return x ^ y
            if op == '&^':
                return x & ~y & ((1 << w) - 1)
            if op == '<':
                return a < b
            if op == '<=':
                return a <= b
            if op == '>':
                return a > b
            if op == '>=':
                return a >= b
            if op in ('/', '%'):
                if b == 0:
                    raise PathEnd('panic', 'integer divide by zero')
                q = abs(a) // abs(b)
                q = -q if (a < 0) != (b < 0) else q
                return mask(q, w) if op == '/' else mask(a - q * b, w)
            raise Unsupported('binop ' + op)
        xx, yy = to_bv(x, w), to_bv(y, w)
        if op == '+':
            return xx + yy
        if op == '-':
            return xx - yy
        if op == '*':
            return xx * yy
        if op == '&':
            return xx & yy
        if op == '|':
            return xx | yy
        if op == '^':
            return xx ^ yy
        if op == '&^':
            return xx & ~yy
        if op == '<':
            return (xx < yy) if sg else z3.ULT(xx, yy)
        if op == '<=':
            return (xx <= yy) if sg else z3.ULE(xx, yy)
        if op == '>':
            return (xx > yy) if sg else z3.UGT(xx, yy)
        if op == '>=':
            return (xx >= yy) if sg else z3.UGE(xx, yy)
        if op in ('/', '%'):
            if ys:
                if not self.branch(yy != 0, 'div0'):
                    raise PathEnd('panic', 'integer divide by zero')
            elif y == 0:
                raise PathEnd('panic', 'integer divide by zero')
            if op == '/':
                return (xx / yy) if sg else z3.UDiv(xx, yy)
            return z3.SRem(xx, yy) if sg else z3.URem(xx, yy)
        raise Unsupported('binop ' + op)

    def conj(self, a, b):
        if a is True:
            return b
        if b is True:
            return a
        if a is False or b is False:
            return False
        return z3.And(to_bool(a), to_bool(b))

    def disj(self, a, b):
        if a is False:
            return b
        if b is False:
            return a
        if a is True or b is True:
            return True
        return z3.Or(to_bool(a), to_bool(b))

    def neg(self, a):
        return z3.Not(a) if isinstance(a, z3.ExprRef) else (not a)

    def ptr_eq(self, x, y):
        if x is NIL or y is NIL:
            return x is y
        if isinstance(x, Ptr) and isinstance(y, Ptr):
            if x.obj != y.obj or len(x.path) != len(y.path):
                return False
            r = True
            for a, b in zip(x.path, y.path):
                if isinstance(a, SymIdx) or isinstance(b, SymIdx):
                    ta = a.term if isinstance(a, SymIdx) else z3.BitVecVal(a, 64)
                    tb = b.term if isinstance(b, SymIdx) else z3.BitVecVal(b, 64)
                    r = self.conj(r, ta == tb)
                elif a != b:
                    return False
            return r
        if isinstance(x, MapRef) and isinstance(y, MapRef):
            return x.obj == y.obj
        if isinstance(x, Closure) or isinstance(y, Closure):
            raise Unsupported('func comparison')
        if isinstance(x, ChanV) and isinstance(y, ChanV):
            return x.obj == y.obj
        raise Unsupported('pointer-like equality %r %r' % (x, y))

    def equal(self, x, y, t):
        T = self.T
        k = T.kind(t)
        if k == 'int':
            if isinstance(x, z3.ExprRef) or isinstance(y, z3.ExprRef):
                if self.intmode:
                    return self.ib(x) == self.ib(y)
                w = T.width(t)
                return to_bv(x, w) == to_bv(y, w)
            return x == y
        if k == 'bool':
            if isinstance(x, z3.ExprRef) or isinstance(y, z3.ExprRef):
                return to_bool(x) == to_bool(y)
            return x == y
        if k == 'string':
            if isinstance(x, bytes) and isinstance(y, bytes):
                return x == y
            if isinstance(x, Opaque) or isinstance(y, Opaque):
                raise Unsupported('comparison of opaque strings')
            bx, by = str_bytes(x), str_bytes(y)
            if len(bx) != len(by):
                return False
            r = True
            for a, b in zip(bx, by):
                if is_sym(a) or is_sym(b):
                    r = self.conj(r, to_bv(a, 8) == to_bv(b, 8))
                elif a != b:
                    return False
            return r
        if k == 'float':
            return x == y
        if k in ('ptr', 'func', 'chan', 'map', 'slice', 'unsafeptr'):
            return self.ptr_eq(x, y)
        if k == 'iface':
            if x is NIL or y is NIL:
                return x is y
            if isinstance(x, Opaque) or isinstance(y, Opaque):
                raise Unsupported('comparison of opaque interface')
            if T.canon(x.t) != T.canon(y.t):
                return False
            if isinstance(x.v, Opaque) or isinstance(y.v, Opaque):
                return x.v is y.v
            return self.equal(x.v, y.v, x.t)
        if k == 'struct':
            if isinstance(x, BigV) or isinstance(x, TimeV):
                raise Unsupported('== on big.Int/time.Time struct values')
            r = True
            for i, f in enumerate(T.fields(t)):
                r = self.conj(r, self.equal(x[i], y[i], f['type']))
                if r is False:
                    return False
            return r
        if k == 'array':
            et = T.elem(t)
            r = True
            for a, b in zip(x, y):
                r = self.conj(r, self.equal(a, b, et))
                if r is False:
                    return False
            return r
        raise Unsupported('equality on ' + k)

    def convert(self, x, xt, t):
        T = self.T
        kf, kt = T.kind(xt), T.kind(t)
        if kf == 'int' and kt == 'int':
            wf, wt = T.width(xt), T.width(t)
            if not isinstance(x, z3.ExprRef):
                v = sval(x, wf) if T.signed(xt) else x
                return mask(v, wt)
            if self.intmode:
                if wt < wf:
                    return x % (2 ** wt)
                if wt == wf or not T.signed(xt):
                    return x
                return z3.If(x >= 2 ** (wf - 1), x + 2 ** wt - 2 ** wf, x)
            if wt < wf:
                return z3.Extract(wt - 1, 0, x)
            if wt == wf:
                return x
            return z3.SignExt(wt - wf, x) if T.signed(xt) else z3.ZeroExt(wt - wf, x)
        if kf == 'int' and kt == 'float':
            if isinstance(x, z3.ExprRef):
                return Opaque('float of symbolic int')   # only ever formatted into log messages
            return float(sval(x, T.width(xt)) if T.signed(xt) else x)
        if kf == 'float' and kt == 'int':
            return mask(int(x), T.width(t))
        if kf == 'float' and kt == 'float':
            return x
        if kt == 'string' and kf == 'slice':
            if x is NIL:
                return b''
            if isinstance(x, Opaque):
                return x
            return mkstr(self.slice_elems(x))
        if kt == 'slice' and kf == 'string':
            if isinstance(x, Opaque):
                raise Unsupported('[]byte(opaque string)')
            bs = str_bytes(x)
            et = T.kind(T.elem(t))
            if T.width(T.elem(t)) != 8:
                raise Unsupported('[]rune(string)')
            return SliceV(self.new_obj(bs), (), 0, len(bs), len(bs))
        if kt == 'string' and kf == 'int':
            if isinstance(x, z3.ExprRef):
                raise Unsupported('string(symbolic rune)')
            return chr(x).encode('utf8') if x < 0x110000 else b'\xef\xbf\xbd'
        if kf == kt and kf in ('ptr', 'slice', 'map', 'func', 'chan', 'struct', 'array', 'iface', 'string', 'bool'):
            return x
        if kt == 'unsafeptr' or kf == 'unsafeptr':
            raise Unsupported('unsafe.Pointer conversion')
        raise Unsupported('convert %s -> %s' % (T.tab[xt]['str'], T.tab[t]['str']))

    # ------------------------------------------------------------ slices
    def slice_arr(self, s):
        v = self.heap[s.obj]
        for c in s.base:
            v = v[c]
        return v

    def slice_elems(self, s):
        if s is NIL:
            return []
        arr = self.slice_arr(s)
        return arr[s.off:s.off + s.len]

    def set_slice_elems(self, s, start, vals):
        """write vals into slice s beginning at slice index start (no bounds check)"""
        if not vals:
            return
        arr = arr_copy(self.slice_arr(s))
        arr[s.off + start:s.off + start + len(vals)] = vals
        self.heap[s.obj] = self._replace(self.heap[s.obj], s.base, arr)

    def _replace(self, cur, path, val):
        if not path:
            return val
        new = arr_copy(cur)
        new[path[0]] = self._replace(cur[path[0]], path[1:], val)
        return new

    def mkslice(self, vals):
        vals = list(vals)
        return SliceV(self.new_obj(vals), (), 0, len(vals), len(vals))

    def bounds(self, cond, what):
        if not self.branch(cond, what):
            raise PathEnd('panic', what)

    def as_i64(self, o, regs):
        """operand value widened to 64 bits according to its static type (index / slice operands)"""
        v = self.val(o, regs)
        t = o['t']
        w = self.T.width(t)
        sg = self.T.signed(t)
        if isinstance(v, z3.ExprRef):
            if self.intmode:
                raise Unsupported('int-mode symbolic index')
            if w == 64:
                return v
            return z3.SignExt(64 - w, v) if sg else z3.ZeroExt(64 - w, v)
        return mask(sval(v, w), 64) if sg else v

    def idx_ok(self, i, ln):
        if not isinstance(i, z3.ExprRef):
            return 0 <= sval(i, 64) < ln
        return z3.ULT(i, z3.BitVecVal(ln, 64))

    def do_slice(self, ins, regs, where):
        T = self.T
        x = self.val(ins['x'], regs)
        lo = self.as_i64(ins['lo'], regs) if ins['lo'] else 0
        hi = self.as_i64(ins['hi'], regs) if ins['hi'] else None
        mx = self.as_i64(ins['max'], regs) if ins['max'] else None
        k = T.kind(ins['xt'])
        if k == 'ptr':   # *[N]T
            if x is NIL:
                raise PathEnd('panic', 'nil pointer dereference (slice of nil array pointer) ' + where)
            n = T.under(T.elem(ins['xt']))['len']
            obj, base, off, ln, cap = x.obj, x.path, 0, n, n
            for c in base:
                if isinstance(c, SymIdx):
                    raise Unsupported('slice of array at symbolic path')
        elif k == 'slice':
            if x is NIL:
                obj, base, off, ln, cap = None, (), 0, 0, 0
            else:
                obj, base, off, ln, cap = x.obj, x.base, x.off, x.len, x.cap
        elif k == 'string':
            if isinstance(x, Opaque):
                raise Unsupported('slice of opaque string')
            bs = str_bytes(x)
            n = len(bs)
            hi2 = n if hi is None else hi
            if isinstance(lo, z3.ExprRef) or isinstance(hi2, z3.ExprRef):
                self.bounds(z3.And(z3.ULE(to_bv(lo, 64), to_bv(hi2, 64)), z3.ULE(to_bv(hi2, 64), z3.BitVecVal(n, 64))),
                            'slice bounds out of range ' + where)
                lo = self.concretize(lo, 'string slice lo', 256)
                hi2 = self.concretize(hi2, 'string slice hi', 256)
            elif not (0 <= sval(lo, 64) <= sval(hi2, 64) <= n):
                raise PathEnd('panic', 'slice bounds out of range ' + where)
            return mkstr(bs[lo:hi2])
        else:
            raise Unsupported('slice of ' + k)
        if hi is None:
            hi = ln
        if mx is None:
            mx = cap
        if isinstance(lo, z3.ExprRef) or isinstance(hi, z3.ExprRef) or isinstance(mx, z3.ExprRef):
            l, h, m = to_bv(lo, 64), to_bv(hi, 64), to_bv(mx, 64)
            # 0 <= lo <= hi <= max <= cap, all as unsigned (negative values are huge)
            self.bounds(z3.And(z3.ULE(l, h), z3.ULE(h, m), z3.ULE(m, z3.BitVecVal(cap, 64))),
                        'slice bounds out of range ' + where)
            lo = self.concretize(lo, 'slice lo', 4096)
            hi = self.concretize(hi, 'slice hi', 4096,
                                 maxval=None if self.slice_split is None else lo + self.slice_split)
            mx = self.concretize(mx, 'slice max', 4096)
        else:
            if not (0 <= sval(lo, 64) <= sval(hi, 64) <= sval(mx, 64) <= cap):
                raise PathEnd('panic', 'slice bounds out of range [%d:%d:%d] with capacity %d %s'
                              % (sval(lo, 64), sval(hi, 64), sval(mx, 64), cap, where))
        if obj is None:
            return NIL
        return SliceV(obj, base, off + lo, hi - lo, mx - lo)

    # ------------------------------------------------------------ maps
    def map_lookup(self, m, key, kt):
        """returns (value or None, found bool) forking on symbolic key equality"""
        if m is NIL:
            return None, False
        mv = self.heap[m.obj]
        for k, v in reversed(mv.entries):
            eq = self.equal(k, key, kt)
            if self.branch(eq, 'map key equality'):
                return v, True
        return None, False

    def map_update(self, m, key, val, where):
        if m is NIL:
            raise PathEnd('panic', 'assignment to entry in nil map ' + where)
        mv = self.heap[m.obj]
        ents = list(mv.entries)
        for i, (k, v) in enumerate(ents):
            if self.branch(self.equal(k, key, mv.kt), 'map key equality'):
                ents[i] = (k, val)
                self.heap[m.obj] = MapV(tuple(ents), mv.kt, mv.vt)
                return
        ents.append((key, val))
        self.heap[m.obj] = MapV(tuple(ents), mv.kt, mv.vt)

    def map_delete(self, m, key):
        if m is NIL:
            return
        mv = self.heap[m.obj]
        ents = list(mv.entries)
        for i, (k, v) in enumerate(ents):
            if self.branch(self.equal(k, key, mv.kt), 'map key equality'):
                del ents[i]
                self.heap[m.obj] = MapV(tuple(ents), mv.kt, mv.vt)
                return

    # ------------------------------------------------------------ nondets
    def fresh(self, tag, width, boolean=False):
        k = self.ncount.get(tag, 0)
        self.ncount[tag] = k + 1
        key = '%s#%d' % (tag, k)
        if self.pinned is not None:
            v = self.pinned.get(key, 0)
            return ((v & 1) != 0) if boolean else mask(v, width)
        if boolean:
            v = z3.Bool(key)
        elif self.intmode:
            v = z3.Int(key)
            self.add(v >= 0)
            self.add(v < 2 ** width)
        else:
            v = z3.BitVec(key, width)
        self.nondets[key] = v
        return v

    # ------------------------------------------------------------ calls
    def call(self, fname, args, ins, where, depth):
        if depth > 80:
            raise Unsupported('call depth > 80 at ' + fname)
        ov = self.overrides.get(fname)
        if ov is not None:
            fname = ov
        h = INTRINSICS.get(fname)
        if h is not None:
            return h(self, args, ins, where)
        for p, hh in PREFIX_INTRINSICS:
            if fname.startswith(p):
                r = hh(self, fname, args, ins, where)
                if r is not NotImplemented:
                    return r
        f = self.funcs.get(fname)
        if f is None or not f['blocks']:
            if fname.endswith('.init'):
                return None
            raise Unsupported('no body: ' + fname)
        return self.run(f, args, [], depth + 1)

    def call_value(self, fv, args, ins, where, depth):
        """call a func value (Closure)"""
        if fv is NIL:
            raise PathEnd('panic', 'call of nil func ' + where)
        if isinstance(fv, Opaque):
            raise Unsupported('call of opaque func value')
        if fv.bind:
            f = self.funcs.get(fv.fn)
            if f is None or not f['blocks']:
                raise Unsupported('no body: ' + fv.fn)
            return self.run(f, args, fv.bind, depth + 1)
        return self.call(fv.fn, args, ins, where, depth)

    def invoke(self, recv, mname, args, ins, where, depth):
        if recv is NIL:
            raise PathEnd('panic', 'nil interface method call %s %s' % (mname, where))
        if isinstance(recv, Opaque) or not isinstance(recv, Iface):
            raise Unsupported('invoke %s on %r' % (mname, recv))
        if recv.t == -1:
            h = INTRINSICS.get('opaque-error.' + mname)
            if h is not None:
                return h(self, [recv] + args, ins, where)
            raise Unsupported('invoke %s on opaque error' % mname)
        tstr = self.T.canon(recv.t)
        fn = self.ir['methods'].get(tstr, {}).get(mname)
        if fn is None:
            raise Unsupported('no method %s on %s' % (mname, tstr))
        return self.call(fn, [recv.v] + args, ins, where, depth)

    def implements(self, t, iface_t):
        ms = self.ir['methods'].get(self.T.canon(t))
        need = self.T.under(iface_t)['methods']
        if not need:
            return True
        if ms is None:
            return False
        return all(m in ms for m in need)

    # ------------------------------------------------------------ operands
    def val(self, o, regs):
        k = o['k']
        if k == 'reg':
            return regs[o['n']]
        if k == 'const':
            ck = o['ck']
            if ck == 'zero':
                return self.zero(o['t'])
            if ck == 'int':
                c = o.get('_c')
                if c is None:
                    te = self.T.under(o['t'])
                    if te.get('name') in ('float64', 'float32'):
                        c = o['_c'] = float(o['v'])    # an integral constant of floating type
                    else:
                        c = o['_c'] = mask(int(o['v']), self.T.width(o['t']))
                return c
            if ck == 'bool':
                return o['v']
            if ck == 'string':
                c = o.get('_c')
                if c is None:
                    c = o['_c'] = base64.b64decode(o['v']) if o['v'] else b''
                return c
            if ck == 'float':
                return float(o['v'])
            raise Unsupported('const ' + ck)
        if k == 'global':
            g = self.globals.get(o['n'])
            if g is None:
                g = self.globals[o['n']] = self.new_obj(self.zero(self.T.elem(o['t'])))
            return Ptr(g, ())
        if k == 'func':
            return Closure(o['n'], [])
        raise Unsupported('operand ' + k)

    # ------------------------------------------------------------ interpreter
    def run(self, f, args, bind, depth):
        name = f['name']
        self.fn_used[name] = self.fn_used.get(name, 0) + 1
        fr = Frame(f)
        regs = fr.regs
        for p, a in zip(f['params'], args):
            regs[p['n']] = a
        for p, a in zip(f['freevars'], bind):
            regs[p['n']] = a
        blocks = f['blocks']
        bi = 0
        prev = -1
        visits = {}
        lenient = self.lenient
        short = name.rsplit('/', 1)[-1]
        while True:
            b = blocks[bi]
            instrs = b['instrs']
            # phis first (parallel assignment)
            if instrs and instrs[0]['op'] == 'Phi':
                if prev == -2:
                    regs.update(self._merged)
                    self._merged = None
                else:
                    pidx = b['preds'].index(prev)
                    newv = {}
                    for ins in instrs:
                        if ins['op'] != 'Phi':
                            break
                        newv[ins['r']] = self.val(ins['edges'][pidx], regs)
                    regs.update(newv)
            self.stats['instrs'] += len(instrs)
            if self.stats['instrs'] - self.path_start_instrs > self.max_steps:
                raise PathEnd('bound-exceeded', 'step budget %d exceeded' % self.max_steps)
            for ins in instrs:
                op = ins['op']
                if op == 'Phi':
                    continue
                if op == 'If':
                    cv = self.val(ins['c'], regs)
                    if isinstance(cv, Opaque):
                        raise Unsupported('branch on opaque value in %s:%s' % (short, ins.get('pos')))
                    if isinstance(cv, z3.ExprRef) and not self.spec and not lenient:
                        m = self.try_merge(f, bi, cv, regs)
                        if m is not None:
                            prev, bi = m
                            break
                    c = self.branch(cv, short)
                    if isinstance(cv, z3.ExprRef) and not lenient:
                        # unwinding bound: counts only iterations whose continuation the solver decided
                        n = visits.get(bi, 0) + 1
                        visits[bi] = n
                        if n > self.unwind and self.pinned is None:
                            raise PathEnd('bound-exceeded', 'unwind %d exceeded in %s block %d' % (self.unwind, short, bi))
                    prev = bi
                    bi = b['succs'][0 if c else 1]
                    break
                if op == 'Jump':
                    prev = bi
                    bi = b['succs'][0]
                    break
                if op == 'Return':
                    rs = [self.val(r, regs) for r in ins['res']]
                    return None if not rs else (rs[0] if len(rs) == 1 else rs)
                if op == 'Panic':
                    where = '%s:%s' % (short, ins.get('pos'))
                    raise PathEnd('panic', 'explicit panic at ' + where)
                if lenient:
                    try:
                        self.step(ins, op, regs, fr, depth, short)
                    except (Unsupported, AttributeError, TypeError, KeyError, IndexError, ValueError) as e:
                        if 'r' in ins:
                            regs[ins['r']] = Opaque('poison: %s' % e)
                    continue
                self.step(ins, op, regs, fr, depth, short)

    def try_merge(self, f, bi, cond, regs):
        """if-conversion of a triangle / diamond whose arms are side-effect free"""
        blocks = f['blocks']
        b = blocks[bi]
        s0, s1 = b['succs']
        if s0 == s1:
            return None
        info = b.get('_merge')
        if info is None:
            info = b['_merge'] = self.merge_shape(blocks, bi, s0, s1)
        if info is False:
            return None
        arm0, arm1, join = info
        jb = blocks[join]
        saved = self.spec
        self.spec = True
        try:
            outs = []
            for arm in (arm0, arm1):
                if arm is None:
                    outs.append((regs, bi))
                    continue
                r2 = dict(regs)
                fr2 = Frame(f)
                fr2.regs = r2
                for ins in blocks[arm]['instrs']:
                    op = ins['op']
                    if op == 'Jump':
                        break
                    self.step(ins, op, r2, fr2, 0, '')
                outs.append((r2, arm))
            (r0, p0), (r1, p1) = outs
            i0, i1 = jb['preds'].index(p0), jb['preds'].index(p1)
            newv = {}
            for ins in jb['instrs']:
                if ins['op'] != 'Phi':
                    break
                a = self.val(ins['edges'][i0], r0)
                c = self.val(ins['edges'][i1], r1)
                newv[ins['r']] = self.ite_t(cond, a, c, ins['t'])
        except (SpecFail, Unsupported, PathEnd):
            return None
        finally:
            self.spec = saved
        # commit: registers defined in the arms stay local (SSA dominance: they are only
        # visible through the phis), the join continues with the merged phis
        self._merged = newv
        return (-2, join)

    def merge_shape(self, blocks, bi, s0, s1):
        def pure_arm(x):
            bb = blocks[x]
            if bb['preds'] != [bi]:
                return False
            ins = bb['instrs']
            if not ins or ins[-1]['op'] != 'Jump' or len(ins) > 12:
                return False
            for i in ins[:-1]:
                if i['op'] not in SPEC_OPS:
                    return False
            return True
        b0, b1 = blocks[s0], blocks[s1]
        # triangle: s0 is a pure arm jumping to s1
        if pure_arm(s0) and b0['succs'] == [s1] and bi in b1['preds']:
            return (s0, None, s1)
        if pure_arm(s1) and b1['succs'] == [s0] and bi in b0['preds']:
            return (None, s1, s0)
        if pure_arm(s0) and pure_arm(s1) and b0['succs'] == b1['succs'] and len(b0['succs']) == 1:
            return (s0, s1, b0['succs'][0])
        return False

    def step(self, ins, op, regs, fr, depth, short):
        T = self.T
        if op == 'BinOp':
            regs[ins['r']] = self.binop(ins['o'], self.val(ins['x'], regs), self.val(ins['y'], regs),
                                        ins['t'], ins['xt'], ins['yt'])
        elif op == 'UnOp':
            x = self.val(ins['x'], regs)
            o = ins['o']
            if o == '*':
                regs[ins['r']] = self.load(x, '%s:%s' % (short, ins.get('pos')), ins['t'])
            elif o == '!':
                regs[ins['r']] = z3.Not(x) if isinstance(x, z3.ExprRef) else (not x)
            elif o == '-':
                if T.kind(ins['t']) == 'float':
                    regs[ins['r']] = -x
                elif isinstance(x, z3.ExprRef):
                    regs[ins['r']] = ((-x) % (2 ** T.width(ins['t']))) if self.intmode else -x
                else:
                    regs[ins['r']] = mask(-x, T.width(ins['t']))
            elif o == '^':
                w = T.width(ins['t'])
                if isinstance(x, z3.ExprRef):
                    regs[ins['r']] = (2 ** w - 1 - x) if self.intmode else ~x
                else:
                    regs[ins['r']] = mask(~x, w)
            elif o == '<-':
                raise Unsupported('channel receive')
            else:
                raise Unsupported('unop ' + o)
        elif op == 'Call':
            self.do_call(ins, regs, fr, depth, short)
        elif op == 'FieldAddr':
            p = self.val(ins['x'], regs)
            if p is NIL:
                raise PathEnd('panic', 'nil pointer dereference (field) at %s:%s' % (short, ins.get('pos')))
            if not isinstance(p, Ptr):
                raise Unsupported('FieldAddr on %r' % (p,))
            regs[ins['r']] = Ptr(p.obj, p.path + (ins['i'],))
        elif op == 'Field':
            x = self.val(ins['x'], regs)
            if not isinstance(x, list):
                raise Unsupported('Field of %r' % (x,))
            regs[ins['r']] = x[ins['i']]
        elif op == 'IndexAddr':
            x = self.val(ins['x'], regs)
            i = self.as_i64(ins['i'], regs)
            where = '%s:%s' % (short, ins.get('pos'))
            if T.kind(ins['xt']) == 'slice':
                ln = 0 if x is NIL else x.len
                self.bounds(self.idx_ok(i, ln), 'index out of range ' + where)
                if isinstance(i, z3.ExprRef):
                    idx = SymIdx(simp(z3.BitVecVal(x.off, 64) + i), x.off, x.off + ln)
                else:
                    idx = x.off + i
                regs[ins['r']] = Ptr(x.obj, x.base + (idx,))
            else:  # pointer to array
                if x is NIL:
                    raise PathEnd('panic', 'nil pointer dereference (index) at ' + where)
                n = T.under(T.elem(ins['xt']))['len']
                self.bounds(self.idx_ok(i, n), 'index out of range ' + where)
                if isinstance(i, z3.ExprRef):
                    i = SymIdx(i, 0, n)
                regs[ins['r']] = Ptr(x.obj, x.path + (i,))
        elif op == 'Index':
            x = self.val(ins['x'], regs)
            i = self.as_i64(ins['i'], regs)
            where = '%s:%s' % (short, ins.get('pos'))
            k = T.kind(ins['xt'])
            if k == 'array':
                self.bounds(self.idx_ok(i, len(x)), 'index out of range ' + where)
                regs[ins['r']] = self.select_chain(i, 0, x, ins['t']) if isinstance(i, z3.ExprRef) else x[i]
            elif k == 'string':
                if isinstance(x, Opaque):
                    raise Unsupported('index of opaque string')
                bs = str_bytes(x)
                self.bounds(self.idx_ok(i, len(bs)), 'index out of range (string) ' + where)
                regs[ins['r']] = self.select_chain(i, 0, bs, self.t_uint8) if isinstance(i, z3.ExprRef) else bs[i]
            else:
                raise Unsupported('Index on ' + k)
        elif op == 'Store':
            self.store(self.val(ins['a'], regs), self.val(ins['v'], regs), '%s:%s' % (short, ins.get('pos')),
                       ins['v']['t'])
        elif op == 'Alloc':
            regs[ins['r']] = Ptr(self.new_obj(self.zero(ins['elem'])), ())
        elif op == 'Convert':
            regs[ins['r']] = self.convert(self.val(ins['x'], regs), ins['xt'], ins['t'])
        elif op == 'ChangeType':
            regs[ins['r']] = self.val(ins['x'], regs)
        elif op == 'Extract':
            regs[ins['r']] = self.val(ins['x'], regs)[ins['i']]
        elif op == 'Slice':
            regs[ins['r']] = self.do_slice(ins, regs, '%s:%s' % (short, ins.get('pos')))
        elif op == 'MakeInterface':
            regs[ins['r']] = Iface(ins['xt'], self.val(ins['x'], regs))
        elif op == 'ChangeInterface':
            regs[ins['r']] = self.val(ins['x'], regs)
        elif op == 'MakeClosure':
            regs[ins['r']] = Closure(ins['fn']['n'], [self.val(x, regs) for x in ins['bind']])
        elif op == 'TypeAssert':
            self.type_assert(ins, regs, short)
        elif op == 'MakeSlice':
            self.make_slice(ins, regs, short)
        elif op == 'Lookup':
            x = self.val(ins['x'], regs)
            where = '%s:%s' % (short, ins.get('pos'))
            if T.kind(ins['xt']) == 'string':
                i = self.as_i64(ins['i'], regs)
                if isinstance(x, Opaque):
                    raise Unsupported('index of opaque string')
                bs = str_bytes(x)
                self.bounds(self.idx_ok(i, len(bs)), 'index out of range (string) ' + where)
                regs[ins['r']] = self.select_chain(i, 0, bs, self.t_uint8) if isinstance(i, z3.ExprRef) else bs[i]
            else:
                mt = T.under(ins['xt'])
                key = self.val(ins['i'], regs)
                v, ok = self.map_lookup(x, key, mt['key'])
                if not ok:
                    v = self.zero(mt['elem'])
                regs[ins['r']] = [v, ok] if ins['commaok'] else v
        elif op == 'MapUpdate':
            if self.spec:
                raise SpecFail()
            self.map_update(self.val(ins['m'], regs), self.val(ins['k'], regs), self.val(ins['v'], regs),
                            '%s:%s' % (short, ins.get('pos')))
        elif op == 'MakeMap':
            mt = T.under(ins['t'])
            regs[ins['r']] = MapRef(self.new_obj(MapV((), mt['key'], mt['elem'])))
        elif op == 'Range':
            x = self.val(ins['x'], regs)
            if T.kind(ins['xt']) == 'string':
                regs[ins['r']] = StrIter(x)
            elif x is NIL:
                regs[ins['r']] = MapIter((), None, None)
            else:
                mv = self.heap[x.obj]
                regs[ins['r']] = MapIter(mv.entries, mv.kt, mv.vt)
        elif op == 'Next':
            it = self.val(ins['x'], regs)
            if ins['str']:
                bs = str_bytes(it.s)
                if it.pos >= len(bs):
                    regs[ins['r']] = [False, 0, 0]
                else:
                    c = bs[it.pos]
                    if isinstance(c, z3.ExprRef) or c >= 0x80:
                        raise Unsupported('range over non-ASCII / symbolic string')
                    regs[ins['r']] = [True, it.pos, c]
                    it.pos += 1
            else:
                if it.pos >= len(it.entries):
                    regs[ins['r']] = [False, None, None]
                else:
                    k, v = it.entries[it.pos]
                    it.pos += 1
                    regs[ins['r']] = [True, k, v]
        elif op == 'Defer':
            if self.spec:
                raise SpecFail()
            fr.defers.append(ins)
            # arguments are evaluated at defer time
            ins_args = [self.val(a, regs) for a in ins['args']]
            recv = self.val(ins['recv'], regs) if 'invoke' in ins else None
            fnv = None
            if 'invoke' not in ins and ins['fn']['k'] != 'builtin' and 'static' not in ins:
                fnv = self.val(ins['fn'], regs)
            elif 'invoke' not in ins and ins['fn']['k'] == 'reg':
                fnv = self.val(ins['fn'], regs)
            fr.defers[-1] = (ins, ins_args, recv, fnv)
        elif op == 'RunDefers':
            while fr.defers:
                dins, dargs, recv, fnv = fr.defers.pop()
                where = '%s:%s' % (short, dins.get('pos'))
                if 'invoke' in dins:
                    self.invoke(recv, dins['invoke'], dargs, dins, where, depth)
                elif dins['fn']['k'] == 'builtin':
                    self.builtin(dins['fn']['n'], dargs, dins, where)
                elif fnv is not None:
                    self.call_value(fnv, dargs, dins, where, depth)
                else:
                    self.call(dins['static'], dargs, dins, where, depth)
        elif op == 'Select':
            if ins['blocking']:
                raise Unsupported('blocking select')
            # non-blocking select: the default case is always a legal schedule
            r = [mask(-1, 64), False]
            for st in ins['states']:
                if st['dir'] == 2:   # RecvOnly
                    r.append(self.zero(T.elem(st['chan']['t'])))
            regs[ins['r']] = r
        elif op == 'MakeChan':
            regs[ins['r']] = ChanV(self.new_obj(('chan',)))
        elif op == 'SliceToArrayPointer':
            x = self.val(ins['x'], regs)
            n = T.under(T.elem(ins['t']))['len']
            ln = 0 if x is NIL else x.len
            if ln < n:
                raise PathEnd('panic', 'cannot convert slice with length %d to array of length %d' % (ln, n))
            if x is NIL:
                regs[ins['r']] = NIL
            elif x.off == 0 and len(self.slice_arr(x)) == n:
                regs[ins['r']] = Ptr(x.obj, x.base)
            else:
                raise Unsupported('SliceToArrayPointer into the middle of an array')
        else:
            raise Unsupported('%s in %s:%s' % (op, short, ins.get('pos')))

    def make_slice(self, ins, regs, short):
        T = self.T
        where = '%s:%s' % (short, ins.get('pos'))
        n = self.as_i64(ins['len'], regs)
        c = self.as_i64(ins['cap'], regs)
        et = T.elem(ins['t'])
        esz = T.tab[et].get('size', 1) or 1
        if isinstance(n, z3.ExprRef) or isinstance(c, z3.ExprRef):
            nn, cc = to_bv(n, 64), to_bv(c, 64)
            self.bounds(z3.And(nn >= 0, cc >= 0, nn <= cc, z3.ULE(cc, z3.BitVecVal((1 << 47) // esz, 64))),
                        'makeslice: len out of range ' + where)
            if self.alloc_bound is not None:
                self.obligation(z3.ULE(cc, z3.BitVecVal(self.alloc_bound // esz, 64)), 'alloc', where,
                                'allocation of cap*%d bytes within bound %d' % (esz, self.alloc_bound))
            c = self.concretize(c, 'make cap ' + where, 4096, maxval=self.alloc_split)
            n = self.concretize(n, 'make len ' + where, 4096, maxval=self.alloc_split)
        else:
            if sval(n, 64) < 0 or sval(c, 64) < 0 or n > c or c * esz > (1 << 47):
                raise PathEnd('panic', 'makeslice: len out of range ' + where)
            if self.alloc_bound is not None:
                self.obligation(c * esz <= self.alloc_bound, 'alloc', where,
                                'allocation of %d bytes within bound %d' % (c * esz, self.alloc_bound))
            if c > (1 << 22):
                self.stats['cuts'] += 1
                self.cut_notes.add('allocation larger than 4Mi elements not materialised')
                raise PathEnd('cut', 'huge concrete allocation ' + where)
        zero = self.zero(et)
        if isinstance(zero, list):
            arr = [self.zero(et) for _ in range(c)]
        else:
            arr = [zero] * c
        regs[ins['r']] = SliceV(self.new_obj(arr), (), 0, n, c)

    def type_assert(self, ins, regs, short):
        T = self.T
        x = self.val(ins['x'], regs)
        at = ins['at']
        where = '%s:%s' % (short, ins.get('pos'))
        if isinstance(x, Opaque):
            raise Unsupported('type assertion on opaque value')
        if T.kind(at) == 'iface':
            ok = x is not NIL and (x.t != -1 and self.implements(x.t, at) or
                                   (x.t == -1 and T.under(at)['methods'] in ([], ['Error'])))
            v = x if ok else NIL
        else:
            ok = x is not NIL and x.t != -1 and T.canon(x.t) == T.canon(at)
            v = x.v if ok else None
        if ins['commaok']:
            regs[ins['r']] = [v if ok else self.zero(at), ok]
        elif ok:
            regs[ins['r']] = v
        else:
            raise PathEnd('panic', 'interface conversion failed ' + where)

    def do_call(self, ins, regs, fr, depth, short):
        where = '%s:%s' % (short, ins.get('pos'))
        args = [self.val(a, regs) for a in ins['args']]
        if 'invoke' in ins:
            if self.spec:
                raise SpecFail()
            if self.T.named(ins['recvT']) == 'github.com/btcsuite/btclog.Logger':
                regs[ins['r']] = None if not ins.get('rt') else self.zero(ins['rt'][0])
                return
            regs[ins['r']] = self.invoke(self.val(ins['recv'], regs), ins['invoke'], args, ins, where, depth)
            return
        fn = ins['fn']
        if fn['k'] == 'builtin':
            if self.spec and fn['n'] not in ('len', 'cap', 'min', 'max'):
                raise SpecFail()
            regs[ins['r']] = self.builtin(fn['n'], args, ins, where)
            return
        if self.spec:
            raise SpecFail()
        if 'static' in ins:
            if fn['k'] == 'reg':   # closure call with static callee
                cl = regs[fn['n']]
                regs[ins['r']] = self.call_value(cl, args, ins, where, depth)
            else:
                regs[ins['r']] = self.call(ins['static'], args, ins, where, depth)
        else:
            regs[ins['r']] = self.call_value(self.val(fn, regs), args, ins, where, depth)

    def builtin(self, name, args, ins, where):
        T = self.T
        if name in ('len', 'cap'):
            a = args[0]
            if isinstance(a, bytes):
                return len(a)
            if isinstance(a, StrV):
                return len(a)
            if a is NIL:
                return 0
            if isinstance(a, SliceV):
                return a.len if name == 'len' else a.cap
            if isinstance(a, MapRef):
                return len(self.heap[a.obj].entries)
            if isinstance(a, list):
                return len(a)
            if isinstance(a, Ptr):   # *[N]T
                return len(self.load_path(self.heap[a.obj], a.path, None))
            if isinstance(a, ChanV):
                return 0
            raise Unsupported('len of %r' % (a,))
        if name == 'append':
            d, sl = args
            if isinstance(sl, (bytes, StrV)):
                src = str_bytes(sl)
            else:
                src = self.slice_elems(sl)
            n2 = len(src)
            if d is NIL:
                n1 = 0
                if n2 == 0:
                    return NIL
                old = []
            else:
                n1 = d.len
                if n1 + n2 <= d.cap:
                    nd = SliceV(d.obj, d.base, d.off, n1 + n2, d.cap)
                    self.set_slice_elems(nd, n1, src)
                    return nd
                old = self.slice_elems(d)
            cap = max(n1 + n2, 2 * n1)
            et = T.elem(ins['t'])
            new = old + src + [self.zero(et) for _ in range(cap - n1 - n2)]
            return SliceV(self.new_obj(new), (), 0, n1 + n2, cap)
        if name == 'copy':
            d, s = args
            if d is NIL or s is NIL:
                return 0
            src = str_bytes(s) if isinstance(s, (bytes, StrV)) else self.slice_elems(s)
            n = min(d.len, len(src))
            self.set_slice_elems(d, 0, src[:n])
            return n
        if name == 'delete':
            self.map_delete(args[0], args[1])
            return None
        if name in ('min', 'max'):
            t = ins['t']
            r = args[0]
            for a in args[1:]:
                lt = self.binop('<', a, r, None, t, t) if name == 'min' else self.binop('>', a, r, None, t, t)
                r = self.ite_t(lt, a, r, t) if isinstance(lt, z3.ExprRef) else (a if lt else r)
            return r
        if name == 'panic':
            raise PathEnd('panic', 'explicit panic at ' + where)
        if name == 'recover':
            return NIL
        if name in ('print', 'println'):
            return None
        if name == 'clear':
            a = args[0]
            if isinstance(a, MapRef):
                mv = self.heap[a.obj]
                self.heap[a.obj] = MapV((), mv.kt, mv.vt)
                return None
            if isinstance(a, SliceV):
                et = T.elem(ins['args'][0]['t'])
                self.set_slice_elems(a, 0, [self.zero(et) for _ in range(a.len)])
                return None
            return None
        if name == 'close':
            return None
        raise Unsupported('builtin ' + name)

    # ------------------------------------------------------------ base heap (package inits)
    def build_base(self, adopt=None):
        T = self.T
        self.t_uint8 = T.by_str.get('uint8', T.by_str.get('byte'))
        self.t_int64 = T.by_str.get('int64')
        self.t_int = T.by_str.get('int')
        self.t_uint64 = T.by_str.get('uint64')
        self.t_bool = T.by_str.get('bool')
        self.heap = []
        self.globals = {}
        self.pc = []
        self.solver = self.new_solver()
        self.decisions = []
        self.dpos = 0
        self.pending = []
        self.nondets = {}
        self.ncount = {}
        self.reached = set()
        self.observed = []
        self.path_start_instrs = 0
        self.alloc_split = 64
        self._merged = None
        if adopt is not None:
            self.base_heap, self.base_globals, self.init_notes, ii = adopt
            self.stats['init_instrs'] = ii
            self.lenient = False
            return
        self.lenient = True
        saved_steps = self.max_steps
        self.max_steps = 50_000_000
        self.init_notes = []
        for it in self.ir['inits']:
            f = self.funcs.get(it['fn'])
            if f and f['blocks']:
                try:
                    self.run(f, [], [], 1)
                except (Unsupported, PathEnd) as e:
                    self.init_notes.append('%s: %s' % (it['pkg'], e))
        self.max_steps = saved_steps
        self.lenient = False
        # globals whose initialiser needs code outside the encoder (e.g. curve parameters) are patched with
        # their documented constant values
        for gname, fix in GLOBAL_FIXUPS.items():
            for full in list(self.ir['globals']):
                if full.endswith(gname):
                    g = self.globals.get(full)
                    if g is None:
                        g = self.globals[full] = self.new_obj(None)
                    self.heap[g] = fix(self)
        self.base_heap = list(self.heap)
        self.base_globals = dict(self.globals)
        self.stats['init_instrs'] = self.stats['instrs']
        self.stats['instrs'] = 0
        self.fn_used = {}

    def reset_path(self, decisions):
        self.decisions = list(decisions)
        self.dpos = 0
        self.solver = self.new_solver()
        self.pc = []
        self.heap = list(self.base_heap)
        self.globals = dict(self.base_globals)
        self.nondets = {}
        self.ncount = {}
        self.reached = set()
        self.observed = []
        self.alloc_bound = None
        self.alloc_split = 64
        self.slice_split = None
        self.spec = False
        self._merged = None
        self.path_start_instrs = self.stats['instrs']

    def run_path(self, f, decisions):
        """execute one path; returns (kind, info)"""
        self.reset_path(decisions)
        self.stats['paths'] += 1
        try:
            self.run(f, [], [], 0)
            return 'ok', None
        except PathEnd as e:
            kind, info = e.kind, e.info
            if kind == 'panic':
                self.stats['obligations'] += 1
                if self.expect_panic:
                    self.stats['discharged'] += 1
                else:
                    self.violation('panic', info, info, self.model_or_none())
            return kind, info

    def explore(self, root, seeds=None, max_paths=None, stop_at_queue=None, deadline=None):
        """explore all paths below the given decision prefixes.  Returns a summary dict."""
        f = self.funcs[root]
        if self.base_heap is None:
            self.build_base()
        self.pending = [list(s) for s in (seeds or [[]])]
        ends = {}
        reached = set()
        t0 = time.time()
        npaths = 0
        from collections import deque
        while self.pending:
            if stop_at_queue is not None and len(self.pending) >= stop_at_queue:
                break
            if max_paths is not None and npaths >= max_paths:
                break
            if deadline is not None and time.time() > deadline:
                ends['deadline'] = ends.get('deadline', 0) + len(self.pending)
                self.results.append(dict(status='inconclusive', kind='deadline', where=root,
                                         msg='%d pending path prefixes not explored' % len(self.pending)))
                self.pending = []
                break
            dec = self.pending.pop(0) if stop_at_queue is not None else self.pending.pop()
            kind, info = self.run_path(f, dec)
            npaths += 1
            ends[kind] = ends.get(kind, 0) + 1
            if kind == 'ok':
                reached |= self.reached
            elif kind in ('bound-exceeded', 'inconclusive'):
                self.stats['inconclusive'] += 1
                self.results.append(dict(status='inconclusive', kind=kind, where=root, msg=str(info)))
        return dict(root=root, wall_s=round(time.time() - t0, 3), ends=ends, reached=sorted(reached),
                    pending=[p for p in self.pending])
