//verif:module txscript
//verif:pkg .
package txscript

import (
	"github.com/btcsuite/btcd/chainhash/v2"
	"github.com/btcsuite/btcd/wire/v2"
)

// previous outputs for taproot: a 34-byte P2TR script with symbolic key bytes and a symbolic amount per input
type vTapFetcher struct {
	amounts []int64
	scripts [][]byte
	tx      *wire.MsgTx
}

func (f *vTapFetcher) FetchPrevOutput(op wire.OutPoint) *wire.TxOut {
	for i, in := range f.tx.TxIn {
		if in.PreviousOutPoint == op {
			return &wire.TxOut{Value: f.amounts[i], PkScript: f.scripts[i]}
		}
	}
	return nil
}

func specVarBytes(b []byte) []byte { return append(specVarInt(len(b)), b...) }

func specSHA(b []byte) []byte { return chainhash.HashB(b) }

// C07(3): BIP341 / BIP342 signature message: for every hash type the digest is defined for exactly the seven valid
// values and equals TaggedHash("TapSighash", SigMsg) with SigMsg as specified (epoch, hash type, version, lock time,
// the five midstate hashes, spend type, input data, annex hash, single-output hash, tapscript extension).
//verif:opts reach=valid,invalid
func VH_taproot_sighash() {
	nin := 1 + vNondetLen("nin", 1)
	nout := 1 + vNondetLen("nout", 1)
	tx := &wire.MsgTx{Version: vNondetI32("version"), LockTime: vNondetU32("locktime")}
	f := &vTapFetcher{tx: tx}
	for i := 0; i < nin; i++ {
		ti := &wire.TxIn{Sequence: vNondetU32("seq")}
		ti.PreviousOutPoint.Hash[0] = byte(i + 1) // distinct outpoints
		ti.PreviousOutPoint.Index = vNondetU32("previdx")
		tx.TxIn = append(tx.TxIn, ti)
		f.amounts = append(f.amounts, vNondetI64("amount"))
		f.scripts = append(f.scripts, append([]byte{0x51, 0x20}, vNondetBytes("outkey", 32)...))
	}
	for i := 0; i < nout; i++ {
		tx.TxOut = append(tx.TxOut, &wire.TxOut{Value: vNondetI64("value"), PkScript: vNondetBytes("pk", 1+i)})
	}
	idx := vNondetLen("idx", nin-1)
	ht := SigHashType(vNondetU8("hashType"))
	var opts []TaprootSigHashOption
	var annex []byte
	hasAnnex := vNondetBool("annex")
	if hasAnnex {
		annex = make([]byte, []int{1, 252, 253}[vNondetLen("annexLen", 2)])
		annex[0] = 0x50
		annex[len(annex)-1] = vNondetU8("annexLast")
		opts = append(opts, WithAnnex(annex))
	}
	tapscript := vNondetBool("tapscript")
	var leaf []byte
	var codeSep uint32
	if tapscript {
		leaf = vNondetBytes("leafHash", 32)
		codeSep = vNondetU32("codeSep")
		opts = append(opts, WithBaseTapscriptVersion(codeSep, leaf))
	}
	hashes := NewTxSigHashes(tx, f)
	got, err := calcTaprootSignatureHashRaw(hashes, ht, tx, idx, f, opts...)
	valid := ht <= 3 || (ht >= 0x81 && ht <= 0x83)
	if !valid {
		vAssert(err != nil, "undefined taproot hash types have no digest")
		vReach("invalid")
		return
	}
	base := ht & 3
	acp := ht&0x80 != 0
	if base == 3 && idx >= nout {
		vAssert(err != nil, "SIGHASH_SINGLE without a matching output is an error")
		vReach("invalid")
		return
	}
	vAssert(err == nil && len(got) == 32, "digest computed for every valid hash type")
	// ---- specification
	var prevouts, amounts, scripts, seqs, outs []byte
	for i := 0; i < nin; i++ {
		prevouts = append(prevouts, specOutPoint(tx.TxIn[i].PreviousOutPoint)...)
		amounts = append(amounts, specLE(uint64(f.amounts[i]), 8)...)
		scripts = append(scripts, specVarBytes(f.scripts[i])...)
		seqs = append(seqs, specLE(uint64(tx.TxIn[i].Sequence), 4)...)
	}
	for i := 0; i < nout; i++ {
		outs = append(outs, specTxOut(tx.TxOut[i].Value, tx.TxOut[i].PkScript)...)
	}
	msg := []byte{0x00, byte(ht)}
	msg = append(msg, specLE(uint64(uint32(tx.Version)), 4)...)
	msg = append(msg, specLE(uint64(tx.LockTime), 4)...)
	if !acp {
		msg = append(msg, specSHA(prevouts)...)
		msg = append(msg, specSHA(amounts)...)
		msg = append(msg, specSHA(scripts)...)
		msg = append(msg, specSHA(seqs)...)
	}
	if base != 2 && base != 3 {
		msg = append(msg, specSHA(outs)...)
	}
	spend := byte(0)
	if tapscript {
		spend = 2
	}
	if hasAnnex {
		spend++
	}
	msg = append(msg, spend)
	if acp {
		msg = append(msg, specOutPoint(tx.TxIn[idx].PreviousOutPoint)...)
		msg = append(msg, specLE(uint64(f.amounts[idx]), 8)...)
		msg = append(msg, specVarBytes(f.scripts[idx])...)
		msg = append(msg, specLE(uint64(tx.TxIn[idx].Sequence), 4)...)
	} else {
		msg = append(msg, specLE(uint64(idx), 4)...)
	}
	if hasAnnex {
		msg = append(msg, specSHA(specVarBytes(annex))...)
	}
	if base == 3 {
		msg = append(msg, specSHA(specTxOut(tx.TxOut[idx].Value, tx.TxOut[idx].PkScript))...)
	}
	if tapscript {
		msg = append(msg, leaf...)
		msg = append(msg, 0x00)
		msg = append(msg, specLE(uint64(codeSep), 4)...)
	}
	tag := specSHA([]byte("TapSighash"))
	pre := append(append(append([]byte{}, tag...), tag...), msg...)
	want := specSHA(pre)
	for i := 0; i < 32; i++ {
		vAssert(got[i] == want[i], "taproot sighash == TaggedHash(TapSighash, SigMsg per BIP341/342)")
	}
	vReach("valid")
}

// C07(3'): the public tapscript helper commits to what the caller asked for: CalcTapscriptSignaturehash with a
// caller-supplied code-separator position (and optionally an annex) equals the raw BIP341/342 digest for that
// position, leaf and annex; without one it commits to the blank position 0xffffffff - for every hash type, position
// and leaf script byte.  (The raw digest itself is compared with the specification by VH_taproot_sighash.)
//verif:opts reach=end
func VH_tapscript_sighash_helper_options() {
	tx := &wire.MsgTx{Version: 2, LockTime: vNondetU32("locktime")}
	f := &vTapFetcher{tx: tx}
	ti := &wire.TxIn{Sequence: vNondetU32("seq")}
	ti.PreviousOutPoint.Hash[0] = 1
	tx.TxIn = append(tx.TxIn, ti)
	f.amounts = append(f.amounts, vNondetI64("amount"))
	f.scripts = append(f.scripts, append([]byte{0x51, 0x20}, vNondetBytes("outkey", 32)...))
	tx.TxOut = append(tx.TxOut, &wire.TxOut{Value: vNondetI64("value"), PkScript: []byte{0x51}})
	ht := SigHashType([]byte{0x00, 0x01, 0x02, 0x03, 0x81, 0x82, 0x83}[vNondetLen("hashType", 6)])
	leaf := NewBaseTapLeaf([]byte{0x51, vNondetU8("leafByte"), 0xab, 0xac})
	leafHash := leaf.TapHash()
	hashes := NewTxSigHashes(tx, f)
	var callerOpts, rawOpts []TaprootSigHashOption
	pos := uint32(0xffffffff)
	if vNondetBool("callerGivesPosition") {
		pos = vNondetU32("codeSepPos")
		callerOpts = append(callerOpts, WithBaseTapscriptVersion(pos, leafHash[:]))
	}
	rawOpts = append(rawOpts, WithBaseTapscriptVersion(pos, leafHash[:]))
	if vNondetBool("annex") {
		annex := []byte{0x50, vNondetU8("annexByte")}
		callerOpts = append(callerOpts, WithAnnex(annex))
		rawOpts = append(rawOpts, WithAnnex(annex))
	}
	got, err := CalcTapscriptSignaturehash(hashes, ht, tx, 0, f, leaf, callerOpts...)
	want, werr := calcTaprootSignatureHashRaw(hashes, ht, tx, 0, f, rawOpts...)
	vAssert(err == nil && werr == nil, "both digests are defined for a valid hash type")
	vAssert(len(got) == 32 && len(want) == 32, "32-byte digests")
	for i := range got {
		vAssert(got[i] == want[i], "the helper's digest is the BIP342 digest for the caller's code-separator position and annex")
	}
	vReach("end")
}
