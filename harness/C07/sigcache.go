//verif:module txscript
//verif:pkg .
package txscript

import "github.com/btcsuite/btcd/chainhash/v2"

// C07: the signature cache is keyed by (digest, signature, public key) byte for byte: after Add(h, s, k) a lookup
// succeeds exactly for the same three values - two different encodings / points never share an entry.
//verif:opts reach=end
func VH_sigcache_exact_key() {
	c := NewSigCache(4)
	var h, h2 chainhash.Hash
	copy(h[:], vNondetBytes("h", 32))
	copy(h2[:], vNondetBytes("h2", 32))
	sig := vNondetBytes("sig", 3)
	key := vNondetBytes("key", 33)
	c.Add(h, sig, key)
	qs := vNondetBytes("qsig", 3)
	qk := vNondetBytes("qkey", 33)
	same := func(a, b []byte) bool {
		for i := range a {
			if a[i] != b[i] {
				return false
			}
		}
		return true
	}
	vAssert(c.Exists(h, qs, qk) == (same(sig, qs) && same(key, qk)), "hit iff signature and public key bytes are identical")
	vAssert(c.Exists(h2, sig, key) == (h2 == h), "hit iff the digest is identical")
	vReach("end")
}
