//verif:module txscript
//verif:pkg .
package txscript

import (
	"github.com/btcsuite/btcd/chainhash/v2"
	"github.com/btcsuite/btcd/wire/v2"
)

// ---- reference serialisation helpers (written from the protocol description, no shared code)
func specLE(v uint64, n int) []byte {
	b := make([]byte, n)
	for i := 0; i < n; i++ {
		b[i] = byte(v % 256)
		v /= 256
	}
	return b
}

func specVarInt(v int) []byte {
	if v < 0xfd {
		return []byte{byte(v)}
	}
	return append([]byte{0xfd}, specLE(uint64(v), 2)...)
}

func specOutPoint(op wire.OutPoint) []byte {
	return append(append([]byte{}, op.Hash[:]...), specLE(uint64(op.Index), 4)...)
}

func specTxOut(value int64, pk []byte) []byte {
	b := specLE(uint64(value), 8)
	b = append(b, specVarInt(len(pk))...)
	return append(b, pk...)
}

// removal of OP_CODESEPARATOR at instruction boundaries (FindAndDelete of the single opcode)
func specRemoveCodeSep(s []byte) []byte {
	var out []byte
	i := 0
	for i < len(s) {
		op := s[i]
		n := 1
		switch {
		case op >= 1 && op <= 75:
			n = 1 + int(op)
		case op == 76:
			if i+1 < len(s) {
				n = 2 + int(s[i+1])
			} else {
				n = len(s) - i + 1
			}
		case op == 77:
			if i+2 < len(s) {
				n = 3 + int(s[i+1]) + int(s[i+2])*256
			} else {
				n = len(s) - i + 1
			}
		case op == 78:
			n = len(s) - i + 1 // cannot fit in the bounded scripts used here
		}
		if i+n > len(s) {
			// malformed tail: copied verbatim
			out = append(out, s[i:]...)
			break
		}
		if op != OP_CODESEPARATOR {
			out = append(out, s[i:i+n]...)
		}
		i += n
	}
	return out
}

func vMkSigTx(nin, nout int) *wire.MsgTx {
	tx := &wire.MsgTx{Version: vNondetI32("version"), LockTime: vNondetU32("locktime")}
	for i := 0; i < nin; i++ {
		ti := &wire.TxIn{Sequence: vNondetU32("seq"), SignatureScript: vNondetBytes("oldsig", 1)}
		copy(ti.PreviousOutPoint.Hash[:], vNondetBytes("prevhash", 32))
		ti.PreviousOutPoint.Index = vNondetU32("previdx")
		tx.TxIn = append(tx.TxIn, ti)
	}
	for i := 0; i < nout; i++ {
		tx.TxOut = append(tx.TxOut, &wire.TxOut{Value: vNondetI64("value"), PkScript: vNondetBytes("pk", 1+i)})
	}
	return tx
}

// C07(1): legacy signature hash pre-image == Bitcoin Core SignatureHash (legacy) serialisation, for every
// one-byte hash type (including undefined values), every input index, script code of 0..2 symbolic bytes
// (OP_CODESEPARATOR removal), all other fields symbolic; the caller's transaction is not modified.
//verif:opts reach=end,single_oob
func VH_legacy_sighash() {
	nin := 1 + vNondetLen("nin", 1)
	nout := 1 + vNondetLen("nout", 1)
	tx := vMkSigTx(nin, nout)
	idx := vNondetLen("idx", nin-1)
	ht := SigHashType(vNondetU8("hashType"))
	script := vNondetBytes("script", vNondetLen("slen", 2))
	// documented precondition of calcSignatureHash / removeOpcodeRaw (CalcSignatureHash and the engine
	// establish it before calling): the script code parses
	vAssume(checkScriptParses(0, script) == nil)
	// snapshot of the fields a buggy implementation could clobber
	seq0, pk0len := tx.TxIn[0].Sequence, len(tx.TxOut[0].PkScript)
	val0 := tx.TxOut[0].Value
	sig0 := tx.TxIn[0].SignatureScript
	got := calcSignatureHash(script, ht, tx, idx)
	vAssert(tx.TxIn[0].Sequence == seq0 && len(tx.TxOut[0].PkScript) == pk0len && tx.TxOut[0].Value == val0 &&
		len(tx.TxIn) == nin && len(tx.TxOut) == nout && len(tx.TxIn[0].SignatureScript) == len(sig0),
		"the caller's transaction is not modified")
	base := ht & 0x1f
	if base == SigHashSingle && idx >= nout {
		vAssert(len(got) == 32 && got[0] == 1, "SIGHASH_SINGLE without matching output hashes to 1")
		for i := 1; i < 32; i++ {
			vAssert(got[i] == 0, "SIGHASH_SINGLE out of range: remaining bytes zero")
		}
		vReach("single_oob")
		return
	}
	// ---- specification
	pre := specLE(uint64(uint32(tx.Version)), 4)
	anyone := ht&0x80 != 0
	if anyone {
		pre = append(pre, 1)
	} else {
		pre = append(pre, specVarInt(nin)...)
	}
	code := specRemoveCodeSep(script)
	for i := 0; i < nin; i++ {
		if anyone && i != idx {
			continue
		}
		pre = append(pre, specOutPoint(tx.TxIn[i].PreviousOutPoint)...)
		if i == idx {
			pre = append(pre, specVarInt(len(code))...)
			pre = append(pre, code...)
		} else {
			pre = append(pre, 0)
		}
		seq := tx.TxIn[i].Sequence
		if i != idx && (base == SigHashNone || base == SigHashSingle) {
			seq = 0
		}
		pre = append(pre, specLE(uint64(seq), 4)...)
	}
	switch base {
	case SigHashNone:
		pre = append(pre, 0)
	case SigHashSingle:
		pre = append(pre, specVarInt(idx+1)...)
		for i := 0; i < idx; i++ {
			pre = append(pre, specTxOut(-1, nil)...)
		}
		pre = append(pre, specTxOut(tx.TxOut[idx].Value, tx.TxOut[idx].PkScript)...)
	default:
		pre = append(pre, specVarInt(nout)...)
		for i := 0; i < nout; i++ {
			pre = append(pre, specTxOut(tx.TxOut[i].Value, tx.TxOut[i].PkScript)...)
		}
	}
	pre = append(pre, specLE(uint64(tx.LockTime), 4)...)
	pre = append(pre, specLE(uint64(ht), 4)...)
	want := chainhash.DoubleHashB(pre)
	vAssert(len(got) == 32, "digest length")
	for i := 0; i < 32; i++ {
		vAssert(got[i] == want[i], "legacy sighash == double-SHA256 of the specified pre-image")
	}
	vReach("end")
}

// single-entry previous-output fetcher for the segwit hashes
type vFetcher struct{ pk []byte }

func (f vFetcher) FetchPrevOutput(wire.OutPoint) *wire.TxOut { return &wire.TxOut{Value: 1, PkScript: f.pk} }

// C07(2): BIP143 signature hash pre-image == BIP143 layout; identical with a precomputed TxSigHashes
//verif:opts reach=end
func VH_bip143_sighash() {
	nin := 1 + vNondetLen("nin", 1)
	nout := 1 + vNondetLen("nout", 1)
	tx := vMkSigTx(nin, nout)
	idx := vNondetLen("idx", nin-1)
	ht := SigHashType(vNondetU8("hashType"))
	amt := vNondetI64("amount")
	script := vNondetBytes("script", vNondetLen("slen", 2))
	hashes := NewTxSigHashes(tx, vFetcher{pk: []byte{OP_TRUE}})
	got, err := calcWitnessSignatureHashRaw(script, hashes, ht, tx, idx, amt)
	vAssert(err == nil && len(got) == 32, "digest computed")
	base := ht & 0x1f
	anyone := ht&0x80 != 0
	zero := make([]byte, 32)
	// hashPrevouts / hashSequence / hashOutputs per BIP143
	var prevouts, seqs, outs []byte
	for i := 0; i < nin; i++ {
		prevouts = append(prevouts, specOutPoint(tx.TxIn[i].PreviousOutPoint)...)
		seqs = append(seqs, specLE(uint64(tx.TxIn[i].Sequence), 4)...)
	}
	for i := 0; i < nout; i++ {
		outs = append(outs, specTxOut(tx.TxOut[i].Value, tx.TxOut[i].PkScript)...)
	}
	pre := specLE(uint64(uint32(tx.Version)), 4)
	if !anyone {
		pre = append(pre, chainhash.DoubleHashB(prevouts)...)
	} else {
		pre = append(pre, zero...)
	}
	if !anyone && base != SigHashSingle && base != SigHashNone {
		pre = append(pre, chainhash.DoubleHashB(seqs)...)
	} else {
		pre = append(pre, zero...)
	}
	pre = append(pre, specOutPoint(tx.TxIn[idx].PreviousOutPoint)...)
	pre = append(pre, specVarInt(len(script))...)
	pre = append(pre, script...)
	pre = append(pre, specLE(uint64(amt), 8)...)
	pre = append(pre, specLE(uint64(tx.TxIn[idx].Sequence), 4)...)
	switch {
	case base != SigHashSingle && base != SigHashNone:
		pre = append(pre, chainhash.DoubleHashB(outs)...)
	case base == SigHashSingle && idx < nout:
		pre = append(pre, chainhash.DoubleHashB(specTxOut(tx.TxOut[idx].Value, tx.TxOut[idx].PkScript))...)
	default:
		pre = append(pre, zero...)
	}
	pre = append(pre, specLE(uint64(tx.LockTime), 4)...)
	pre = append(pre, specLE(uint64(ht), 4)...)
	want := chainhash.DoubleHashB(pre)
	for i := 0; i < 32; i++ {
		vAssert(got[i] == want[i], "BIP143 sighash == double-SHA256 of the BIP143 pre-image")
	}
	vReach("end")
}
