//verif:module wire
//verif:pkg .
package wire

var vDiscarded uint32

// discardInput loops length/10240 times; for the envelope harness it only records the requested count
func vStubDiscard(r interface{ Read([]byte) (int, error) }, n uint32) { vDiscarded = n }

// C08(5): message envelope: for an arbitrary 32-bit length and checksum, the magic of either network and one of
// several commands, ReadMessageWithEncodingN rejects oversized / foreign / unknown / too-long-for-type messages
// BEFORE allocating the payload buffer, allocates exactly the declared length otherwise, and rejects checksum
// mismatches, short payloads and trailing bytes; header layout = magic | command (NUL padded) | length | checksum.
//verif:opts reach=accept,reject override=discardInput:vStubDiscard
func VH_message_envelope() {
	cmds := []string{"ping", "verack", "mempool", "bogus", "tx"}
	cmd := cmds[vNondetLen("cmd", len(cmds)-1)]
	magic := uint32(MainNet)
	if vNondetBool("foreignMagic") {
		magic = uint32(TestNet3)
	}
	length := vNondetU32("length")
	var hdr []byte
	hdr = append(hdr, byte(magic), byte(magic>>8), byte(magic>>16), byte(magic>>24))
	var c [12]byte
	copy(c[:], cmd)
	hdr = append(hdr, c[:]...)
	hdr = append(hdr, byte(length), byte(length>>8), byte(length>>16), byte(length>>24))
	hdr = append(hdr, vNondetBytes("checksum", 4)...)
	avail := vNondetLen("payloadAvailable", 9)
	payload := vNondetBytes("payload", avail)
	r := &vReader{b: append(hdr, payload...)}
	vAllocBound(4 * MaxMessagePayload) // element structs of a maximal count claim: bounded by a small multiple of the payload limit
	vAllocSplit(9)
	n, msg, buf, err := ReadMessageWithEncodingN(r, ProtocolVersion, MainNet, BaseEncoding)
	_ = n
	maxFor := map[string]uint32{"ping": 8, "verack": 0, "mempool": 0, "tx": MaxBlockPayload}
	mpl, knownCmd := maxFor[cmd]
	switch {
	case length > MaxMessagePayload, magic != uint32(MainNet), !knownCmd, length > mpl:
		vAssert(err != nil && msg == nil, "oversized / foreign / unknown / too long for its type: rejected")
	case uint32(avail) < length:
		vAssert(err != nil && msg == nil, "a short payload is rejected")
	default:
		if err == nil {
			vAssert(msg != nil && msg.Command() == cmd && uint32(len(buf)) == length, "accepted message has the announced command and payload length")
			vReach("accept")
			return
		}
	}
	vReach("reject")
}

// C08(5): WriteMessageWithEncodingN then ReadMessageWithEncodingN is the identity for MsgPing, and the header
// layout is the documented one
//verif:opts reach=end
func VH_message_write_read_ping() {
	nonce := vNondetU64("nonce")
	w := &vWriter{}
	n, err := WriteMessageWithEncodingN(w, NewMsgPing(nonce), ProtocolVersion, MainNet, BaseEncoding)
	vAssert(err == nil && n == 32 && len(w.b) == 32, "24-byte header + 8-byte payload")
	vAssert(w.b[0] == 0xf9 && w.b[1] == 0xbe && w.b[2] == 0xb4 && w.b[3] == 0xd9, "mainnet magic, little endian")
	vAssert(w.b[4] == 'p' && w.b[5] == 'i' && w.b[6] == 'n' && w.b[7] == 'g' && w.b[8] == 0 && w.b[15] == 0, "command NUL padded to 12 bytes")
	vAssert(w.b[16] == 8 && w.b[17] == 0 && w.b[18] == 0 && w.b[19] == 0, "payload length little endian")
	r := &vReader{b: w.b}
	_, msg, _, err := ReadMessageWithEncodingN(r, ProtocolVersion, MainNet, BaseEncoding)
	vAssert(err == nil, "own encoding is accepted (checksum verifies)")
	p, ok := msg.(*MsgPing)
	vAssert(ok && p.Nonce == nonce, "ping nonce round trips")
	vReach("end")
}

// C08(5'): the checksum is verified for EVERY payload, the empty one included: a 24-byte frame for verack / mempool
// / getaddr / sendheaders with an arbitrary 4-byte checksum is accepted iff the checksum is the first four bytes of
// double-SHA256 of the empty string (5d f6 e0 e2).
//verif:opts reach=accept,reject
func VH_message_empty_payload_checksum() {
	cmd := []string{"verack", "mempool", "getaddr", "sendheaders"}[vNondetLen("cmd", 3)]
	hdr := []byte{0xf9, 0xbe, 0xb4, 0xd9}
	var c [12]byte
	copy(c[:], cmd)
	hdr = append(hdr, c[:]...)
	hdr = append(hdr, 0, 0, 0, 0)
	sum := vNondetBytes("checksum", 4)
	hdr = append(hdr, sum...)
	_, msg, _, err := ReadMessageWithEncodingN(&vReader{b: hdr}, ProtocolVersion, MainNet, BaseEncoding)
	good := sum[0] == 0x5d && sum[1] == 0xf6 && sum[2] == 0xe0 && sum[3] == 0xe2
	vAssert((err == nil) == good, "an empty-payload message is accepted iff its checksum is that of the empty payload")
	if err == nil {
		vAssert(msg != nil && msg.Command() == cmd, "and decodes to its command")
		vReach("accept")
	} else {
		vReach("reject")
	}
}
