//verif:module btcutil
//verif:pkg .
package btcutil

import "github.com/btcsuite/btcd/wire/v2"

// C08(3c): the btcutil wrappers report the same transaction ids as the wire messages whatever the order in which
// the cached accessors are used: Bytes() (which caches the serialized block), Tx(k) for an arbitrary k, then
// Transactions().
//verif:opts reach=end
func VH_block_wrapper_hashes_independent_of_access_order() {
	n := 2 + vNondetLen("n", 1+vTier())
	mb := &wire.MsgBlock{}
	for i := 0; i < n; i++ {
		m := wire.NewMsgTx(vNondetI32("version"))
		m.AddTxIn(&wire.TxIn{Sequence: vNondetU32("seq")})
		if vNondetBool("witness") {
			m.TxIn[0].Witness = wire.TxWitness{vNondetBytes("wit", 1)}
		}
		m.AddTxOut(&wire.TxOut{Value: vNondetI64("value"), PkScript: vNondetBytes("pk", i%2)})
		m.LockTime = vNondetU32("locktime")
		mb.Transactions = append(mb.Transactions, m)
	}
	b := NewBlock(mb)
	if vNondetBool("serializeFirst") {
		_, err := b.Bytes()
		vAssert(err == nil, "block serialises")
	}
	if vNondetBool("touchOne") {
		k := vNondetLen("k", n-1)
		t, err := b.Tx(k)
		vAssert(err == nil && t.Index() == k, "Tx(k) returns transaction k")
	}
	txs := b.Transactions()
	vAssert(len(txs) == n, "one wrapper per transaction")
	for i := 0; i < n; i++ {
		want := mb.Transactions[i].TxHash()
		vAssert(*txs[i].Hash() == want, "wrapper txid == wire txid")
		wwant := mb.Transactions[i].WitnessHash()
		vAssert(*txs[i].WitnessHash() == wwant, "wrapper wtxid == wire wtxid")
		vAssert(txs[i].Index() == i, "index")
	}
	vReach("end")
}

// C08(3d): transaction ids survive a serialize / NewBlockFromBytes round trip at the CompactSize boundary of the
// transaction count: blocks of 253 (thorough: 1, 252, 253, 254, 300) minimal transactions - where the count takes 1
// resp. 3 bytes - report, for the first, a middle and the last transaction, the same txid from the wrapper built
// from bytes as from the wire message (concrete contents: every hash is evaluated exactly).
//verif:opts reach=end max_steps=200000000
func VH_block_from_bytes_txids_at_count_boundary() {
	counts := []int{253} // quick: the first count that needs a 3-byte CompactSize
	if vTier() == 1 {
		counts = []int{1, 252, 253, 254, 300}
	}
	n := counts[vNondetLen("count", len(counts)-1)]
	mb := &wire.MsgBlock{Header: wire.BlockHeader{Version: 4, Nonce: 9}}
	for i := 0; i < n; i++ {
		m := wire.NewMsgTx(2)
		var op wire.OutPoint
		op.Hash[0], op.Hash[1] = byte(i), byte(i>>8)
		m.AddTxIn(&wire.TxIn{PreviousOutPoint: op, Sequence: 0xffffffff})
		m.AddTxOut(&wire.TxOut{Value: int64(i), PkScript: []byte{0x51}})
		mb.AddTransaction(m)
	}
	raw, err := NewBlock(mb).Bytes()
	vAssert(err == nil, "serialises")
	blk, err := NewBlockFromBytes(raw)
	vAssert(err == nil, "deserialises")
	txs := blk.Transactions()
	vAssert(len(txs) == n, "all transactions are wrapped")
	for _, i := range []int{0, n / 2, n - 1} {
		want := mb.Transactions[i].TxHash()
		vAssert(*txs[i].Hash() == want, "the wrapper's txid equals the wire message's txid")
		h, herr := blk.TxHash(i)
		vAssert(herr == nil && *h == want, "Block.TxHash agrees")
	}
	vReach("end")
}
