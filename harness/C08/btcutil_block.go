//verif:module btcutil
//verif:pkg .
package btcutil

import "github.com/btcsuite/btcd/wire/v2"

// C08(3c): the btcutil wrappers report the same transaction ids as the wire messages whatever the order in which
// the cached accessors are used: Bytes() (which caches the serialized block), Tx(k) for an arbitrary k, then
// Transactions().
//verif:opts reach=end
func VH_block_wrapper_hashes_independent_of_access_order() {
	n := 2 + vNondetLen("n", 1+vTier())
	mb := &wire.MsgBlock{}
	for i := 0; i < n; i++ {
		m := wire.NewMsgTx(vNondetI32("version"))
		m.AddTxIn(&wire.TxIn{Sequence: vNondetU32("seq")})
		if vNondetBool("witness") {
			m.TxIn[0].Witness = wire.TxWitness{vNondetBytes("wit", 1)}
		}
		m.AddTxOut(&wire.TxOut{Value: vNondetI64("value"), PkScript: vNondetBytes("pk", i%2)})
		m.LockTime = vNondetU32("locktime")
		mb.Transactions = append(mb.Transactions, m)
	}
	b := NewBlock(mb)
	if vNondetBool("serializeFirst") {
		_, err := b.Bytes()
		vAssert(err == nil, "block serialises")
	}
	if vNondetBool("touchOne") {
		k := vNondetLen("k", n-1)
		t, err := b.Tx(k)
		vAssert(err == nil && t.Index() == k, "Tx(k) returns transaction k")
	}
	txs := b.Transactions()
	vAssert(len(txs) == n, "one wrapper per transaction")
	for i := 0; i < n; i++ {
		want := mb.Transactions[i].TxHash()
		vAssert(*txs[i].Hash() == want, "wrapper txid == wire txid")
		wwant := mb.Transactions[i].WitnessHash()
		vAssert(*txs[i].WitnessHash() == wwant, "wrapper wtxid == wire wtxid")
		vAssert(txs[i].Index() == i, "index")
	}
	vReach("end")
}
