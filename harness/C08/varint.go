//verif:module wire
//verif:pkg .
package wire

import "io"

// harness reader / writer over a byte slice
type vReader struct {
	b   []byte
	pos int
}

func (r *vReader) Read(p []byte) (int, error) {
	if r.pos >= len(r.b) {
		return 0, io.EOF
	}
	n := copy(p, r.b[r.pos:])
	r.pos += n
	return n, nil
}

type vWriter struct {
	b []byte
}

func (w *vWriter) Write(p []byte) (int, error) {
	w.b = append(w.b, p...)
	return len(p), nil
}

// reference layout of Bitcoin's CompactSize
func specVarIntSize(v uint64) int {
	if v < 0xfd {
		return 1
	}
	if v <= 0xffff {
		return 3
	}
	if v <= 0xffffffff {
		return 5
	}
	return 9
}

// reference decoder written from the CompactSize definition
func specVarIntDecode(in []byte) (uint64, int, bool) {
	if len(in) == 0 {
		return 0, 0, false
	}
	need, min := 1, uint64(0)
	switch in[0] {
	case 0xfd:
		need, min = 3, 0xfd
	case 0xfe:
		need, min = 5, 0x10000
	case 0xff:
		need, min = 9, 0x100000000
	}
	if len(in) < need {
		return 0, 0, false
	}
	if need == 1 {
		return uint64(in[0]), 1, true
	}
	v := uint64(0)
	for i := need - 1; i >= 1; i-- {
		v = v*256 + uint64(in[i])
	}
	return v, need, v >= min
}

// C08(1a): every uint64 round-trips; size calculator == bytes written == spec; layout is the spec layout.
//verif:opts reach=end
func VH_varint_roundtrip() {
	v := vNondetU64("v")
	w := &vWriter{}
	var buf [8]byte
	err := WriteVarIntBuf(w, 0, v, buf[:])
	vAssert(err == nil, "write ok")
	vAssert(len(w.b) == VarIntSerializeSize(v), "VarIntSerializeSize == bytes written")
	vAssert(len(w.b) == specVarIntSize(v), "bytes written == CompactSize spec length")
	// spec layout: discriminant then little endian
	switch len(w.b) {
	case 1:
		vAssert(uint64(w.b[0]) == v, "1-byte layout")
	case 3:
		vAssert(w.b[0] == 0xfd && uint64(w.b[1])|uint64(w.b[2])<<8 == v, "3-byte layout")
	case 5:
		vAssert(w.b[0] == 0xfe && uint64(w.b[1])|uint64(w.b[2])<<8|uint64(w.b[3])<<16|uint64(w.b[4])<<24 == v, "5-byte layout")
	case 9:
		x := uint64(0)
		for i := 8; i >= 1; i-- {
			x = x<<8 | uint64(w.b[i])
		}
		vAssert(w.b[0] == 0xff && x == v, "9-byte layout")
	}
	r := &vReader{b: w.b}
	got, err := ReadVarIntBuf(r, 0, buf[:])
	vAssert(err == nil, "read ok")
	vAssert(got == v, "value round trip")
	vAssert(r.pos == len(w.b), "consumed exactly what was written")
	vObserve("n", uint64(len(w.b)))
	vReach("end")
}

// C08(1b): every buffer of 0..9 bytes: no panic; decode succeeds iff canonical; re-encoding reproduces consumed bytes.
//verif:opts reach=accept,reject
func VH_varint_canonical() {
	n := vNondetLen("len", 9)
	in := vNondetBytes("in", n)
	r := &vReader{b: in}
	var buf [8]byte
	got, err := ReadVarIntBuf(r, 0, buf[:])
	vAssert(r.pos <= len(in), "never reads past the input")
	if err != nil {
		_, _, ok := specVarIntDecode(in)
		vAssert(!ok, "rejects only truncated or non-canonical encodings")
		vReach("reject")
		return
	}
	sv, sn, ok := specVarIntDecode(in)
	vAssert(ok, "accepts only canonical complete encodings")
	vAssert(sv == got && sn == r.pos, "decoded value and length equal the CompactSize spec")
	vAssert(r.pos == specVarIntSize(got), "consumed length is the canonical length of the value")
	w := &vWriter{}
	_ = WriteVarIntBuf(w, 0, got, buf[:])
	vAssert(len(w.b) == r.pos, "re-encoded length == consumed")
	for i := 0; i < len(w.b); i++ {
		vAssert(w.b[i] == in[i], "re-encoded bytes == consumed bytes")
	}
	vReach("accept")
}
