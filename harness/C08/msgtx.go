//verif:module wire
//verif:pkg .
package wire

import "bytes"

// shape parameters are chosen once per harness run (forked at the top); element i of a kind uses
// length (base+i) mod (max+1) so that neighbouring scripts differ in length.
type vShape struct {
	ls, lp, lw int
	nilEmpty   bool
	max        int
}

func vMkShape(max int) vShape {
	return vShape{ls: vNondetLen("ls", max), lp: vNondetLen("lp", max), lw: vNondetLen("lw", max),
		nilEmpty: vNondetBool("nilEmpty"), max: max}
}

func (sh vShape) script(tag string, base, i int) []byte {
	n := (base + i) % (sh.max + 1)
	if n == 0 && sh.nilEmpty {
		return nil
	}
	return vNondetBytes(tag, n)
}

func vMkTx(nin, nout, nwit int, sh vShape) *MsgTx {
	tx := &MsgTx{Version: vNondetI32("version"), LockTime: vNondetU32("locktime")}
	for i := 0; i < nin; i++ {
		ti := &TxIn{Sequence: vNondetU32("seq")}
		copy(ti.PreviousOutPoint.Hash[:], vNondetBytes("prevhash", 32))
		ti.PreviousOutPoint.Index = vNondetU32("previdx")
		ti.SignatureScript = sh.script("sigscript", sh.ls, i)
		for j := 0; j < nwit; j++ {
			ti.Witness = append(ti.Witness, vNondetBytes("wit", (sh.lw+i+j)%(sh.max+1)))
		}
		tx.TxIn = append(tx.TxIn, ti)
	}
	for i := 0; i < nout; i++ {
		tx.TxOut = append(tx.TxOut, &TxOut{Value: vNondetI64("value"), PkScript: sh.script("pkscript", sh.lp, i)})
	}
	return tx
}

func vSameBytes(a, b []byte) bool { return bytes.Equal(a, b) }

func vSameTx(a, b *MsgTx) bool {
	if a.Version != b.Version || a.LockTime != b.LockTime || len(a.TxIn) != len(b.TxIn) || len(a.TxOut) != len(b.TxOut) {
		return false
	}
	for i := range a.TxIn {
		x, y := a.TxIn[i], b.TxIn[i]
		if x.PreviousOutPoint != y.PreviousOutPoint || x.Sequence != y.Sequence || !vSameBytes(x.SignatureScript, y.SignatureScript) {
			return false
		}
		if len(x.Witness) != len(y.Witness) {
			return false
		}
		for j := range x.Witness {
			if !vSameBytes(x.Witness[j], y.Witness[j]) {
				return false
			}
		}
	}
	for i := range a.TxOut {
		if a.TxOut[i].Value != b.TxOut[i].Value || !vSameBytes(a.TxOut[i].PkScript, b.TxOut[i].PkScript) {
			return false
		}
	}
	return true
}

// C08(3a): encode -> decode identity, size calculators == bytes written, for small shapes with every field symbolic.
//verif:opts reach=end par=4
func VH_msgtx_roundtrip() {
	nin := 1 + vNondetLen("nin", 1)
	nout := 1 + vNondetLen("nout", 1)
	nwit := vNondetLen("nwit", 2)
	tx := vMkTx(nin, nout, nwit, vMkShape(2))
	// witness encoding
	w := &vWriter{}
	vAssert(tx.BtcEncode(w, ProtocolVersion, WitnessEncoding) == nil, "encode ok")
	vAssert(len(w.b) == tx.SerializeSize(), "SerializeSize == bytes written (witness encoding)")
	var got MsgTx
	r := &vReader{b: w.b}
	err := got.BtcDecode(r, ProtocolVersion, WitnessEncoding)
	vAssert(err == nil, "decode of own encoding ok")
	vAssert(r.pos == len(w.b), "decode consumed everything")
	vAssert(vSameTx(tx, &got), "decode(encode(tx)) == tx (witness encoding)")
	// base encoding
	w2 := &vWriter{}
	vAssert(tx.BtcEncode(w2, ProtocolVersion, BaseEncoding) == nil, "encode ok (base)")
	vAssert(len(w2.b) == tx.SerializeSizeStripped(), "SerializeSizeStripped == bytes written (base encoding)")
	var got2 MsgTx
	r2 := &vReader{b: w2.b}
	vAssert(got2.BtcDecode(r2, ProtocolVersion, BaseEncoding) == nil, "decode ok (base)")
	for _, ti := range tx.TxIn {
		ti.Witness = nil
	}
	vAssert(vSameTx(tx, &got2), "decode(encode(tx)) == stripped tx (base encoding)")
	vObserve("size", uint64(len(w.b)))
	vReach("end")
}

// C08(3b): every byte string up to N bytes offered to BtcDecode: no panic, bounded allocation,
// and whatever decodes re-encodes to exactly the consumed bytes (canonical form).
//verif:opts reach=accept,reject par=16 max_decisions=4000
func VH_msgtx_decode_any() {
	// lengths: the truncation points of the smallest transaction plus the first lengths at which a
	// whole transaction (1 in, 1 out: 60 bytes; with witness flag: 62+) fits
	lens := []int{0, 3, 4, 5, 9, 41, 46, 59, 60, 62, 66}
	if vTier() == 1 {
		lens = []int{0, 1, 2, 3, 4, 5, 6, 7, 9, 10, 40, 41, 45, 46, 50, 55, 59, 60, 61, 62, 64, 70, 80, 100}
	}
	n := lens[vNondetLen("leni", len(lens)-1)]
	in := vNondetBytes("in", n)
	vAllocBound(4 * MaxMessagePayload)
	vAllocSplit(2)
	vSliceSplit(3) // claimed script / witness item lengths above 3 are cut after their bounds check
	var tx MsgTx
	r := &vReader{b: in}
	err := tx.BtcDecode(r, ProtocolVersion, WitnessEncoding)
	if err != nil {
		vReach("reject")
		return
	}
	w := &vWriter{}
	vAssert(tx.BtcEncode(w, ProtocolVersion, WitnessEncoding) == nil, "re-encode ok")
	vAssert(len(w.b) == r.pos, "re-encoded length == consumed length")
	for i := 0; i < len(w.b); i++ {
		vAssert(w.b[i] == in[i], "re-encoded bytes == consumed bytes")
	}
	vReach("accept")
}

// C08(3a'): size calculators == bytes written at the lengths where a CompactSize prefix grows: witness stacks
// with 252/253 items and items / scripts of 252/253 bytes.
//verif:opts reach=end
func VH_msgtx_size_at_varint_boundaries() {
	counts := []int{1, 2, 252, 253}
	lens := []int{0, 1, 252, 253}
	tx := &MsgTx{Version: vNondetI32("version"), LockTime: vNondetU32("locktime")}
	ti := &TxIn{Sequence: vNondetU32("seq")}
	ti.SignatureScript = make([]byte, lens[vNondetLen("sslen", 3)])
	nw := counts[vNondetLen("nwit", 3)]
	wl := lens[vNondetLen("wlen", 3)]
	for j := 0; j < nw; j++ {
		l := wl
		if j > 0 && nw > 2 {
			l = j % 2 // large stacks: keep the other items tiny
		}
		ti.Witness = append(ti.Witness, make([]byte, l))
	}
	tx.TxIn = append(tx.TxIn, ti)
	tx.TxOut = append(tx.TxOut, &TxOut{Value: vNondetI64("value"), PkScript: make([]byte, lens[vNondetLen("pklen", 3)])})
	w := &vWriter{}
	vAssert(tx.BtcEncode(w, ProtocolVersion, WitnessEncoding) == nil, "encode ok")
	vAssert(len(w.b) == tx.SerializeSize(), "SerializeSize == bytes written")
	vAssert(ti.Witness.SerializeSize() == len(w.b)-tx.SerializeSizeStripped()-2, "TxWitness.SerializeSize == witness bytes written")
	w2 := &vWriter{}
	vAssert(tx.BtcEncode(w2, ProtocolVersion, BaseEncoding) == nil, "encode ok (base)")
	vAssert(len(w2.b) == tx.SerializeSizeStripped(), "SerializeSizeStripped == bytes written")
	var got MsgTx
	r := &vReader{b: w.b}
	vAssert(got.BtcDecode(r, ProtocolVersion, WitnessEncoding) == nil && r.pos == len(w.b), "own encoding decodes completely")
	vAssert(len(got.TxIn) == 1 && len(got.TxIn[0].Witness) == nw && len(got.TxIn[0].Witness[0]) == wl, "witness shape round trips")
	vReach("end")
}

// C08(3c): witness presence is a per-transaction fact decided over ALL inputs: with 2 (thorough 3) inputs that
// independently carry an empty or a non-empty witness stack, HasWitness == "some input has a non-empty witness"; the
// witness encoding carries the BIP144 marker and flag (00 01 after the version) exactly then, is longer than the
// stripped form exactly then, SerializeSize == bytes written, and decode(encode(tx)) returns every input's stack.
//verif:opts reach=mixed,none,all
func VH_msgtx_witness_presence_per_input() {
	nin := 2 + vTier()
	tx := &MsgTx{Version: vNondetI32("version"), LockTime: vNondetU32("locktime")}
	any, all := false, true
	for i := 0; i < nin; i++ {
		ti := &TxIn{Sequence: vNondetU32("seq")}
		ti.PreviousOutPoint.Index = vNondetU32("previdx")
		ti.SignatureScript = vNondetBytes("sigscript", i%2)
		if vNondetBool("haswit") {
			ti.Witness = TxWitness{vNondetBytes("wit", 1+i%2)}
			any = true
		} else {
			all = false
		}
		tx.TxIn = append(tx.TxIn, ti)
	}
	tx.TxOut = append(tx.TxOut, &TxOut{Value: vNondetI64("value"), PkScript: vNondetBytes("pkscript", 1)})
	vAssert(tx.HasWitness() == any, "HasWitness == some input carries a witness")
	w := &vWriter{}
	vAssert(tx.BtcEncode(w, ProtocolVersion, WitnessEncoding) == nil, "encode ok")
	vAssert(len(w.b) == tx.SerializeSize(), "SerializeSize == bytes written")
	ws := &vWriter{}
	vAssert(tx.BtcEncode(ws, ProtocolVersion, BaseEncoding) == nil, "encode ok (base)")
	vAssert(len(ws.b) == tx.SerializeSizeStripped(), "SerializeSizeStripped == bytes written")
	marker := len(w.b) > 5 && w.b[4] == 0 && w.b[5] == 1
	vAssert(marker == any, "marker and flag are present iff some input carries a witness")
	vAssert((len(w.b) > len(ws.b)) == any, "the witness form is longer than the stripped form iff there is witness data")
	var got MsgTx
	r := &vReader{b: w.b}
	vAssert(got.BtcDecode(r, ProtocolVersion, WitnessEncoding) == nil, "decode of own encoding ok")
	vAssert(r.pos == len(w.b), "decode consumed everything")
	vAssert(vSameTx(tx, &got), "decode(encode(tx)) == tx with every input's witness stack")
	switch {
	case any && !all:
		vReach("mixed")
	case !any:
		vReach("none")
	default:
		vReach("all")
	}
}
