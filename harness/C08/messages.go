//verif:module wire
//verif:pkg .
package wire

import "bytes"

// C08(2,4): every message type's decoder on arbitrary bytes of the listed lengths: no panic, every allocation
// bounded by the message payload limit whatever counts are claimed, and - for the message types whose encoding is
// canonical - whatever decodes re-encodes to exactly the consumed bytes.
//verif:opts reach=accept,reject max_decisions=4000
func VH_message_decoders_any_bytes() {
	// (version / addr / addrv2 carry net.IP values, which are outside the encoder)
	cmds := []string{CmdInv, CmdGetData, CmdNotFound, CmdHeaders, CmdGetBlocks, CmdGetHeaders, CmdPing, CmdPong,
		CmdFeeFilter, CmdFilterAdd, CmdFilterLoad, CmdMerkleBlock, CmdReject, CmdGetCFilters, CmdGetCFHeaders, CmdGetCFCheckpt,
		CmdCFilter, CmdCFHeaders, CmdCFCheckpt, CmdBlock}
	cmd := cmds[vNondetLen("cmd", len(cmds)-1)]
	lens := []int{0, 1, 4, 9, 37, 82}
	if vTier() == 1 {
		lens = []int{0, 1, 2, 3, 4, 5, 8, 9, 10, 36, 37, 38, 41, 80, 81, 82, 90, 120}
	}
	n := lens[vNondetLen("leni", len(lens)-1)]
	in := vNondetBytes("in", n)
	msg, err := makeEmptyMessage(cmd)
	vAssert(err == nil, "known command")
	vAllocBound(4 * MaxMessagePayload) // "a fixed multiple": the largest single allocation is the TxIn array of a maximal count claim (~2.5x)
	vAllocSplit(2)
	vSliceSplit(3)
	r := bytes.NewReader(in)
	derr := msg.BtcDecode(r, ProtocolVersion, LatestEncoding)
	if derr != nil {
		vReach("reject")
		return
	}
	consumed := n - r.Len()
	canonical := map[string]bool{CmdInv: true, CmdGetData: true, CmdNotFound: true, CmdHeaders: true, CmdGetBlocks: true,
		CmdGetHeaders: true, CmdPing: true, CmdPong: true, CmdFeeFilter: true, CmdFilterAdd: true, CmdGetCFilters: true,
		CmdGetCFHeaders: true, CmdGetCFCheckpt: true, CmdCFHeaders: true, CmdCFCheckpt: true}[cmd]
	if canonical {
		w := &vWriter{}
		vAssert(msg.BtcEncode(w, ProtocolVersion, LatestEncoding) == nil, "a decoded message re-encodes")
		vAssert(len(w.b) == consumed, "re-encoded length == consumed length")
		for i := 0; i < len(w.b); i++ {
			vAssert(w.b[i] == in[i], "re-encoded bytes == consumed bytes")
		}
	}
	vReach("accept")
}

// C08(4) for the v2 (BIP324) plaintext framing: every plaintext of the listed lengths - in particular every
// truncation of the 13-byte long-form command header (0x00 + 12 command bytes) and the one-byte message-id form -
// is either decoded or rejected with an error, never a panic; a long-form header shorter than 13 bytes is always
// rejected; what is accepted re-encodes through the accepted message's own encoder to the payload that followed the
// header.
//verif:opts reach=accept,reject,shortheader max_decisions=4000
func VH_read_v2_message_any_bytes() {
	lens := []int{0, 1, 2, 12, 13, 14}
	if vTier() == 1 {
		lens = []int{0, 1, 2, 3, 5, 8, 9, 10, 11, 12, 13, 14, 17, 21, 22, 37, 45}
	}
	n := lens[vNondetLen("leni", len(lens)-1)]
	in := vNondetBytes("in", n)
	long := vNondetBool("longform")
	if n > 0 {
		if long {
			vAssume(in[0] == 0)
			// version / addr / addrv2 carry net.IP values, which are outside the encoder (as in the decoder harness)
			vAssume(n < 3 || !((in[1] == 'v' && in[2] == 'e') || (in[1] == 'a' && in[2] == 'd')))
		} else {
			vAssume(in[0] != 0) // one-byte message id (ids without a message type are rejected as unknown commands)
			vAssume(in[0] != 1 && in[0] != 28) // addr, addrv2: see above
		}
	}
	vAllocBound(4 * MaxMessagePayload)
	vAllocSplit(2)
	vSliceSplit(3)
	msg, payload, err := ReadV2MessageN(in, ProtocolVersion, LatestEncoding)
	if n == 0 || (long && n < CommandSize+1) {
		vAssert(err != nil && msg == nil, "an empty plaintext or a truncated long-form header is rejected")
		vReach("shortheader")
		return
	}
	if err != nil {
		vReach("reject")
		return
	}
	hdr := 1
	if long {
		hdr = CommandSize + 1
	}
	vAssert(len(payload) == n-hdr, "the payload returned is everything after the header")
	for i := range payload {
		vAssert(payload[i] == in[hdr+i], "payload bytes are the input's")
	}
	vReach("accept")
}
