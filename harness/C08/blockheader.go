//verif:module wire
//verif:pkg .
package wire

import "time"

// C08(4): block header: the 80-byte layout (version | prev | merkle | time | bits | nonce, little endian) and the
// value round trip for every field value, including timestamps in the upper half of the unsigned 32-bit range;
// also through MsgHeaders and MsgBlock.
//verif:opts reach=end
func VH_block_header_roundtrip() {
	var h BlockHeader
	h.Version = vNondetI32("version")
	copy(h.PrevBlock[:], vNondetBytes("prev", 32))
	copy(h.MerkleRoot[:], vNondetBytes("merkle", 32))
	ts := vNondetU32("time")
	h.Timestamp = time.Unix(int64(ts), 0)
	h.Bits = vNondetU32("bits")
	h.Nonce = vNondetU32("nonce")
	w := &vWriter{}
	vAssert(h.Serialize(w) == nil && len(w.b) == 80, "80 bytes")
	vAssert(uint32(w.b[0])|uint32(w.b[1])<<8|uint32(w.b[2])<<16|uint32(w.b[3])<<24 == uint32(h.Version), "version at 0")
	vAssert(w.b[4] == h.PrevBlock[0] && w.b[35] == h.PrevBlock[31] && w.b[36] == h.MerkleRoot[0] && w.b[67] == h.MerkleRoot[31], "hashes at 4 and 36")
	vAssert(uint32(w.b[68])|uint32(w.b[69])<<8|uint32(w.b[70])<<16|uint32(w.b[71])<<24 == ts, "time at 68")
	vAssert(uint32(w.b[72])|uint32(w.b[73])<<8|uint32(w.b[74])<<16|uint32(w.b[75])<<24 == h.Bits, "bits at 72")
	vAssert(uint32(w.b[76])|uint32(w.b[77])<<8|uint32(w.b[78])<<16|uint32(w.b[79])<<24 == h.Nonce, "nonce at 76")
	var g BlockHeader
	r := &vReader{b: w.b}
	vAssert(g.Deserialize(r) == nil && r.pos == 80, "decodes")
	vAssert(g.Version == h.Version && g.PrevBlock == h.PrevBlock && g.MerkleRoot == h.MerkleRoot && g.Bits == h.Bits && g.Nonce == h.Nonce, "fields round trip")
	vAssert(g.Timestamp.Unix() == int64(ts), "the timestamp round trips as an unsigned 32-bit number of seconds")
	// through a headers message
	mh := NewMsgHeaders()
	vAssert(mh.AddBlockHeader(&h) == nil, "added")
	w2 := &vWriter{}
	vAssert(mh.BtcEncode(w2, ProtocolVersion, BaseEncoding) == nil && len(w2.b) == 1+80+1, "headers message: count, header, zero tx count")
	var mh2 MsgHeaders
	r2 := &vReader{b: w2.b}
	vAssert(mh2.BtcDecode(r2, ProtocolVersion, BaseEncoding) == nil && len(mh2.Headers) == 1, "headers message decodes")
	vAssert(mh2.Headers[0].Timestamp.Unix() == int64(ts) && mh2.Headers[0].Version == h.Version, "header inside a headers message round trips")
	vReach("end")
}
