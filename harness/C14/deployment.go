//verif:module .
//verif:pkg blockchain
package blockchain

import (
	"math/big"
	"time"

	"github.com/btcsuite/btcd/chaincfg/v2"
)

// C14(2): the real deploymentChecker with MedianTimeDeploymentStarter / Ender: every answer equals its BIP9 /
// btcd definition for symbolic deployment fields and a chain with symbolic versions and timestamps.
//verif:opts reach=end
func VH_deployment_checker() {
	L := 4
	params := &chaincfg.Params{RuleChangeActivationThreshold: vNondetU32("netThreshold"), MinerConfirmationWindow: vNondetU32("window")}
	b := &BlockChain{chainParams: params, index: newBlockIndex(nil, params)}
	var parent *blockNode
	nodes := make([]*blockNode, 0, L)
	last := int64(0)
	for i := 0; i < L; i++ {
		nd := &blockNode{parent: parent, workSum: big.NewInt(0), height: int32(i)}
		nd.hash[0], nd.hash[1] = 0x44, byte(i)
		nd.version = vNondetI32("version")
		nd.timestamp = vNondetI64("ts")
		vAssume(nd.timestamp >= last && nd.timestamp < 1<<40)
		last = nd.timestamp
		nd.bits = 0x207fffff
		b.index.addNode(nd)
		nodes = append(nodes, nd)
		parent = nd
	}
	start, end := vNondetI64("start"), vNondetI64("end")
	vAssume(start >= 0 && start < 1<<40 && end >= 0 && end < 1<<40)
	startT, endT := time.Unix(start, 0), time.Unix(end, 0)
	if vNondetBool("alwaysStarted") {
		startT = time.Time{}
	}
	if vNondetBool("neverEnds") {
		endT = time.Time{}
	}
	st := chaincfg.NewMedianTimeDeploymentStarter(startT)
	en := chaincfg.NewMedianTimeDeploymentEnder(endT)
	st.SynchronizeClock(b)
	en.SynchronizeClock(b)
	bit := vNondetU8("bit")
	vAssume(bit <= 28)
	d := &chaincfg.ConsensusDeployment{BitNumber: bit, MinActivationHeight: vNondetU32("minHeight"),
		CustomActivationThreshold: vNondetU32("customThreshold"), AlwaysActiveHeight: vNondetU32("alwaysActive"),
		DeploymentStarter: st, DeploymentEnder: en}
	c := deploymentChecker{deployment: d, chain: b}
	n := nodes[1+vNondetLen("node", L-2)]
	// median time past as seen by the starter: the median of the block and its (up to 10) ancestors
	mtp := CalcPastMedianTime(n).Unix()
	vAssert(c.HasStarted(n) == (startT.IsZero() || mtp >= start), "started iff no start time or MTP >= start")
	vAssert(c.HasEnded(n) == (!endT.IsZero() && mtp >= end), "ended iff an end time is set and MTP >= end")
	v := uint32(n.version)
	cond, err := c.Condition(n)
	vAssert(err == nil && cond == (v>>29 == 1 && v&(1<<d.BitNumber) != 0), "vote iff top bits 001 and the deployment bit is set")
	vAssert(c.EligibleToActivate(n) == (d.MinActivationHeight == 0 || uint32(n.height)+1 >= d.MinActivationHeight), "eligible iff next height >= minimum activation height")
	vAssert(c.IsSpeedy() == (d.MinActivationHeight != 0 || d.CustomActivationThreshold != 0), "speedy iff a minimum height or custom threshold is set")
	wantT := params.RuleChangeActivationThreshold
	if d.CustomActivationThreshold != 0 {
		wantT = d.CustomActivationThreshold
	}
	vAssert(c.RuleChangeActivationThreshold() == wantT && c.MinerConfirmationWindow() == params.MinerConfirmationWindow, "threshold / window selection")
	vAssert(c.ForceActive(n) == (d.AlwaysActiveHeight != 0 && uint32(n.height)+1 >= d.AlwaysActiveHeight), "forced iff an always-active height is set and reached by the next block")
	vAssert(!c.ForceActive(nil), "never forced before genesis")
	vReach("end")
}
