//verif:module .
//verif:pkg blockchain
package blockchain

import "github.com/btcsuite/btcd/chaincfg/v2"

// the state of each deployment is decided by the state-machine harnesses; here it is an arbitrary input
var vNV [8]ThresholdState

func vStubThresholdState(b *BlockChain, prevNode *blockNode, checker thresholdConditionChecker, cache *thresholdStateCache) (ThresholdState, error) {
	dc := checker.(deploymentChecker)
	for i := range b.chainParams.Deployments {
		if dc.deployment == &b.chainParams.Deployments[i] {
			return vNV[i], nil
		}
	}
	return ThresholdFailed, nil
}

// C14(4): the version proposed for the next block: top bits 001 plus exactly the bits of the deployments that are
// Started or LockedIn (never those Defined, Active or Failed), for every combination of states of the network's
// deployments (mainnet's bit assignment).
//verif:opts reach=end noverride=thresholdstate.go:BlockChain.thresholdState:vStubThresholdState
func VH_calc_next_block_version() {
	params := chaincfg.MainNetParams
	nd := len(params.Deployments)
	bits := make([]uint8, nd)
	want := uint32(0x20000000)
	for i := 0; i < nd; i++ {
		vNV[i] = ThresholdState(vNondetU8("state"))
		vAssume(vNV[i] <= ThresholdFailed)
		bits[i] = params.Deployments[i].BitNumber // the network's own bit assignment
		if vNV[i] == ThresholdStarted || vNV[i] == ThresholdLockedIn {
			want |= uint32(1) << bits[i]
		}
	}
	b := &BlockChain{chainParams: &params}
	b.deploymentCaches = make([]thresholdStateCache, nd)
	prev := &blockNode{height: 100}
	got, err := b.calcNextBlockVersion(prev)
	vAssert(err == nil && uint32(got) == want, "next version == 0x20000000 | bits of Started / LockedIn deployments")
	vReach("end")
}
