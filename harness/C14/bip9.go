//verif:module .
//verif:pkg blockchain
package blockchain

import "math/big"

// harness condition checker: every answer is a function of symbolic per-node data and symbolic parameters
type vChecker struct {
	start, end int64 // compared with the node timestamp (stands for the median time past, monotone)
	threshold  uint32
	window     uint32
	minHeight  int32
	speedy     bool
	forceFrom  int32 // ForceActive(node) iff node != nil && node.height+1 >= forceFrom (forceFrom < 0: never)
}

func (c *vChecker) HasStarted(n *blockNode) bool          { return n.timestamp >= c.start }
func (c *vChecker) HasEnded(n *blockNode) bool            { return n.timestamp >= c.end }
func (c *vChecker) RuleChangeActivationThreshold() uint32 { return c.threshold }
func (c *vChecker) MinerConfirmationWindow() uint32       { return c.window }
func (c *vChecker) EligibleToActivate(n *blockNode) bool  { return n.height+1 >= c.minHeight }
func (c *vChecker) IsSpeedy() bool                        { return c.speedy }
func (c *vChecker) Condition(n *blockNode) (bool, error)  { return n.version&1 != 0, nil }
func (c *vChecker) ForceActive(n *blockNode) bool {
	return c.forceFrom >= 0 && n != nil && n.height+1 >= c.forceFrom
}

func vMkVoteChain(parent *blockNode, n int, label byte, lastTs int64) []*blockNode {
	out := make([]*blockNode, 0, n)
	for i := 0; i < n; i++ {
		nd := &blockNode{parent: parent, workSum: big.NewInt(0)}
		if parent != nil {
			nd.height = parent.height + 1
		}
		nd.hash[0] = label
		nd.hash[1] = byte(nd.height)
		nd.version = vNondetI32("version")
		nd.timestamp = vNondetI64("ts")
		vAssume(nd.timestamp >= lastTs && nd.timestamp < 1<<40) // median time past never decreases
		lastTs = nd.timestamp
		nd.buildAncestor()
		out = append(out, nd)
		parent = nd
	}
	return out
}

// BIP9 (with btcd's speedy-trial / minimum-activation-height extension), one transition evaluated at the
// last block `p` of a retarget window
func specTransition(state ThresholdState, p *blockNode, c *vChecker) ThresholdState {
	started := p.timestamp >= c.start
	ended := p.timestamp >= c.end
	switch state {
	case ThresholdDefined:
		if ended && !c.speedy {
			return ThresholdFailed
		}
		if started {
			return ThresholdStarted
		}
		return ThresholdDefined
	case ThresholdStarted:
		if ended && !c.speedy {
			return ThresholdFailed
		}
		votes := uint32(0)
		n := p
		for i := uint32(0); i < c.window; i++ {
			if n.version&1 != 0 {
				votes++
			}
			n = n.parent
		}
		if votes >= c.threshold {
			return ThresholdLockedIn
		}
		if ended {
			return ThresholdFailed
		}
		return ThresholdStarted
	case ThresholdLockedIn:
		if p.height+1 >= c.minHeight {
			return ThresholdActive
		}
		return ThresholdLockedIn
	}
	return state // Active and Failed are absorbing
}

// state for the block after `prev`: iterate the transition over every complete window from genesis
func specState(prev *blockNode, c *vChecker) ThresholdState {
	if c.forceFrom >= 0 && prev != nil && prev.height+1 >= c.forceFrom {
		return ThresholdActive
	}
	W := int32(c.window)
	if prev == nil || prev.height+1 < W {
		return ThresholdDefined
	}
	state := ThresholdDefined
	last := prev.height - (prev.height+1)%W
	for h := W - 1; h <= last; h += W {
		p := prev
		for p.height != h {
			p = p.parent
		}
		state = specTransition(state, p, c)
	}
	return state
}

func vMkChecker(W uint32) *vChecker {
	c := &vChecker{start: vNondetI64("start"), end: vNondetI64("end"), threshold: vNondetU32("threshold"),
		window: W, minHeight: vNondetI32("minHeight"), speedy: vNondetBool("speedy"), forceFrom: -1}
	vAssume(c.threshold <= W+1 && c.minHeight >= 0 && c.minHeight <= 64)
	vAssume(c.start >= 0 && c.start < 1<<40 && c.end >= 0 && c.end < 1<<40)
	// a deployment whose timeout precedes its start time is degenerate: the reference implementation
	// (like this one) stops walking back at the first window before the start time, so such a deployment
	// stays Defined there; only start <= timeout is claimed
	vAssume(c.start <= c.end)
	return c
}

// C14(1): thresholdStateTransition == BIP9 for every state, window 1..W, arbitrary votes / timestamps / threshold
//verif:opts reach=end
func VH_transition() {
	maxW := 4
	if vTier() == 1 {
		maxW = 8
	}
	W := uint32(1 + vNondetLen("W", maxW-1))
	c := vMkChecker(W)
	chain := vMkVoteChain(nil, int(W), 1, 0)
	p := chain[len(chain)-1]
	st := ThresholdState(vNondetLen("state", 4))
	got, err := thresholdStateTransition(st, p, c, int32(W))
	vAssert(err == nil, "no error from a checker that does not fail")
	want := specTransition(st, p, c)
	vAssert(got == want, "transition == BIP9 state machine")
	if st == ThresholdActive || st == ThresholdFailed {
		vAssert(got == st, "Active and Failed are never left")
	}
	vObserve("got", uint64(got))
	vReach("end")
}

// C14(3): the cached walk == iterating the transition from genesis, at any query point of a chain
// spanning several windows; the answer is independent of what was queried before (empty cache, cache
// warmed by a query on a longer or forked chain).
//verif:opts reach=end
func VH_threshold_state_walk() {
	W := uint32(2 + vNondetLen("W", vTier()))
	c := vMkChecker(W)
	nWin := 3
	L := nWin*int(W) + 1
	main := vMkVoteChain(nil, L, 1, 0)
	forkAt := int(W)*vNondetLen("forkWin", 1) + vNondetLen("forkOff", 1) // fork inside the first or second window
	side := vMkVoteChain(main[forkAt], int(W)+1, 2, main[forkAt].timestamp)
	var b *BlockChain
	// query point: any node of the main chain or the side chain (or nil = genesis's parent)
	var q *blockNode
	qi := vNondetLen("q", L+len(side))
	switch {
	case qi < L:
		q = main[qi]
	case qi < L+len(side):
		q = side[qi-L]
	}
	want := specState(q, c)
	fresh := newThresholdCaches(1)[0]
	got, err := b.thresholdState(q, c, &fresh)
	vAssert(err == nil, "no error")
	vAssert(got == want, "cached walk (empty cache) == BIP9 iterated from genesis")
	// warm the cache with queries at other points, then ask again
	warm := newThresholdCaches(1)[0]
	_, _ = b.thresholdState(main[L-1], c, &warm)
	_, _ = b.thresholdState(side[len(side)-1], c, &warm)
	got2, err2 := b.thresholdState(q, c, &warm)
	vAssert(err2 == nil && got2 == want, "answer does not depend on earlier queries (shared cache across branches)")
	got3, _ := b.thresholdState(q, c, &fresh)
	vAssert(got3 == want, "repeating a query gives the same answer")
	vObserve("state", uint64(got))
	vReach("end")
}

// C14: ForceActive short-circuits to Active from the always-active height on
//verif:opts reach=end
func VH_force_active() {
	W := uint32(2)
	c := vMkChecker(W)
	c.forceFrom = vNondetI32("forceFrom")
	vAssume(c.forceFrom >= 0 && c.forceFrom <= 8)
	chain := vMkVoteChain(nil, 5, 1, 0)
	q := chain[vNondetLen("q", 4)]
	var b *BlockChain
	cache := newThresholdCaches(1)[0]
	got, err := b.thresholdState(q, c, &cache)
	vAssert(err == nil && got == specState(q, c), "forced activation overrides the state machine exactly from the configured height")
	vReach("end")
}
