//verif:module btcutil
//verif:pkg .
package btcutil

import (
	"github.com/btcsuite/btcd/address/v2/base58"
	"github.com/btcsuite/btcd/btcec/v2"
	"github.com/btcsuite/btcd/chaincfg/v2"
	"github.com/btcsuite/btcd/chainhash/v2"
)

var vOrderN = []byte{0xFF, 0xFF, 0xFF, 0xFF, 0xFF, 0xFF, 0xFF, 0xFF, 0xFF, 0xFF, 0xFF, 0xFF, 0xFF, 0xFF, 0xFF, 0xFE,
	0xBA, 0xAE, 0xDC, 0xE6, 0xAF, 0x48, 0xA0, 0x3B, 0xBF, 0xD2, 0x5E, 0x8C, 0xD0, 0x36, 0x41, 0x41}

// C16(9): WIF round trip and strictness: for private keys 1, a mid-range pattern and n-1, either compression flag and
// the key prefix of mainnet / testnet3 / regtest / simnet, DecodeWIF(w.String()) returns the same key bytes, flag
// and network association and re-encodes to the same string; a payload carrying the scalar 0 or n (not a valid key),
// a wrong compression marker or a corrupted checksum is rejected.  (Base-58 radix conversion and the checksum run
// concretely; the public key derivation is curve arithmetic and is not part of this harness.)
//verif:opts reach=roundtrip,rejected
func VH_wif_roundtrip_and_strictness() {
	nets := []*chaincfg.Params{&chaincfg.MainNetParams, &chaincfg.TestNet3Params, &chaincfg.RegressionNetParams, &chaincfg.SimNetParams}
	net := nets[vNondetLen("net", 3)]
	compress := vNondetLen("compress", 1) == 1 // concretised: the encoded length depends on it
	key := make([]byte, 32)
	kind := vNondetLen("key", 4)
	switch kind {
	case 0:
		key[31] = 1
	case 1:
		for i := range key {
			key[i] = byte(0x11 + 7*i)
		}
	case 2: // n - 1
		copy(key, vOrderN)
		key[31]--
	case 3: // n itself: not a valid private key
		copy(key, vOrderN)
	default: // zero: not a valid private key
	}
	if kind <= 2 && vNondetLen("corrupt", 1) == 0 {
		priv, _ := btcec.PrivKeyFromBytes(key)
		w, err := NewWIF(priv, net, compress)
		vAssert(err == nil, "WIF builds")
		s := w.String()
		back, err := DecodeWIF(s)
		vAssert(err == nil, "own encoding decodes")
		vAssert(back.CompressPubKey == compress && back.IsForNet(net), "compression flag and network survive")
		got := back.PrivKey.Serialize()
		for i := range key {
			vAssert(got[i] == key[i], "key bytes survive")
		}
		vAssert(back.String() == s, "decode then encode is the identity")
		other := nets[vNondetLen("otherNet", 3)]
		vAssert(back.IsForNet(other) == (other.PrivateKeyID == net.PrivateKeyID), "belongs exactly to the networks sharing the key prefix")
		vReach("roundtrip")
		return
	}
	// hand-built payloads that must be refused
	payload := append([]byte{net.PrivateKeyID}, key...)
	if compress {
		marker := byte(0x01)
		if kind <= 2 && vNondetLen("badMarker", 1) == 1 {
			marker = 0x02
		}
		payload = append(payload, marker)
	}
	sum := chainhash.DoubleHashB(payload)[:4]
	if kind <= 2 && (!compress || payload[len(payload)-1] == 0x01) {
		sum[0] ^= 0x01 // a valid key with a valid marker: corrupt the checksum instead
	}
	_, err := DecodeWIF(base58.Encode(append(payload, sum...)))
	vAssert(err != nil, "zero / out-of-range keys, wrong compression markers and bad checksums are rejected")
	vReach("rejected")
}
