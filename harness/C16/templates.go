//verif:module txscript
//verif:pkg .
package txscript

// exact templates, byte for byte (BIP13/16/141/341 and the original pay-to-pubkey-hash form)
func specIsP2PKH(s []byte) bool {
	return len(s) == 25 && s[0] == 0x76 && s[1] == 0xa9 && s[2] == 0x14 && s[23] == 0x88 && s[24] == 0xac
}
func specIsP2SH(s []byte) bool  { return len(s) == 23 && s[0] == 0xa9 && s[1] == 0x14 && s[22] == 0x87 }
func specIsP2WPKH(s []byte) bool { return len(s) == 22 && s[0] == 0x00 && s[1] == 0x14 }
func specIsP2WSH(s []byte) bool  { return len(s) == 34 && s[0] == 0x00 && s[1] == 0x20 }
func specIsP2TR(s []byte) bool   { return len(s) == 34 && s[0] == 0x51 && s[1] == 0x20 }

// C16(5): the script-template recognisers accept exactly their template: for every script of the template's
// length (all bytes symbolic) the recogniser, the extractor and GetScriptClass agree with the byte-exact
// definition, so two different scripts never map to the same address payload of the same class.
//verif:opts reach=end
func VH_script_templates_exact() {
	lens := []int{25, 34}
	if vTier() == 1 {
		lens = []int{22, 23, 25, 34}
	}
	n := lens[vNondetLen("leni", len(lens)-1)]
	// the template-defining positions are symbolic (first three and last two bytes), the payload is a fixed pattern
	s := make([]byte, n)
	for i := range s {
		s[i] = byte(0x30 + i)
	}
	for _, i := range []int{0, 1, 2, n - 2, n - 1} {
		s[i] = vNondetU8("b")
	}
	vAssert(isPubKeyHashScript(s) == specIsP2PKH(s), "P2PKH recogniser is exact")
	vAssert(isScriptHashScript(s) == specIsP2SH(s), "P2SH recogniser is exact")
	vAssert(isWitnessPubKeyHashScript(s) == specIsP2WPKH(s), "P2WPKH recogniser is exact")
	vAssert(isWitnessScriptHashScript(s) == specIsP2WSH(s), "P2WSH recogniser is exact")
	vAssert(isWitnessTaprootScript(s) == specIsP2TR(s), "P2TR recogniser is exact")
	if h := extractPubKeyHash(s); h != nil {
		vAssert(len(h) == 20 && specIsP2PKH(s) && h[0] == s[3] && h[19] == s[22], "P2PKH payload is bytes 3..23 of an exact template")
	}
	if h := extractScriptHash(s); h != nil {
		vAssert(len(h) == 20 && specIsP2SH(s) && h[0] == s[2] && h[19] == s[21], "P2SH payload is bytes 2..22 of an exact template")
	}
	cls := GetScriptClass(s)
	if specIsP2PKH(s) {
		vAssert(cls == PubKeyHashTy, "class of the P2PKH template")
	}
	if specIsP2SH(s) {
		vAssert(cls == ScriptHashTy, "class of the P2SH template")
	}
	if cls == PubKeyHashTy {
		vAssert(specIsP2PKH(s), "only the exact template is classed pubkeyhash")
	}
	if cls == ScriptHashTy {
		vAssert(specIsP2SH(s), "only the exact template is classed scripthash")
	}
	if cls == WitnessV0PubKeyHashTy {
		vAssert(specIsP2WPKH(s), "only the exact template is classed witness_v0_keyhash")
	}
	if cls == WitnessV0ScriptHashTy {
		vAssert(specIsP2WSH(s), "only the exact template is classed witness_v0_scripthash")
	}
	if cls == WitnessV1TaprootTy {
		vAssert(specIsP2TR(s), "only the exact template is classed witness_v1_taproot")
	}
	vReach("end")
}

// C16(5): builders produce exactly their template and the extractors read the payload back
//verif:opts reach=end
func VH_script_template_builders_roundtrip() {
	h20 := vNondetBytes("h20", 20)
	h32 := vNondetBytes("h32", 32)
	s1, e1 := payToPubKeyHashScript(h20)
	s2, e2 := payToScriptHashScript(h20)
	s3, e3 := payToWitnessPubKeyHashScript(h20)
	s4, e4 := payToWitnessScriptHashScript(h32)
	s5, e5 := payToWitnessTaprootScript(h32)
	vAssert(e1 == nil && e2 == nil && e3 == nil && e4 == nil && e5 == nil, "builders succeed")
	vAssert(specIsP2PKH(s1) && specIsP2SH(s2) && specIsP2WPKH(s3) && specIsP2WSH(s4) && specIsP2TR(s5), "each builder emits its exact template")
	same := func(a, b []byte) bool {
		if len(a) != len(b) {
			return false
		}
		for i := range a {
			if a[i] != b[i] {
				return false
			}
		}
		return true
	}
	vAssert(same(extractPubKeyHash(s1), h20) && same(extractScriptHash(s2), h20) && same(extractWitnessPubKeyHash(s3), h20) &&
		same(extractWitnessV0ScriptHash(s4), h32) && same(extractWitnessV1KeyBytes(s5), h32), "extract(build(payload)) == payload")
	vReach("end")
}
