//verif:module txscript
//verif:pkg .
package txscript

// C16(6): the fixed-size PkScript wrapper is faithful: for every script of the six supported templates (P2PKH, P2SH,
// P2WPKH, P2WSH, P2TR with arbitrary payload bytes, and the pay-to-anchor script) ParsePkScript succeeds, reports the
// template's class, and Script() returns exactly the bytes that were parsed - so script -> PkScript -> script (and
// with it the address derived from it) is the identity for each template.
//verif:opts reach=p2pkh,p2sh,p2wpkh,p2wsh,p2tr,anchor
func VH_pkscript_parse_script_identity() {
	var s []byte
	var want ScriptClass
	kind := vNondetLen("kind", 5)
	switch kind {
	case 0:
		s = append(append([]byte{0x76, 0xa9, 0x14}, vNondetBytes("h160", 20)...), 0x88, 0xac)
		want = PubKeyHashTy
	case 1:
		s = append(append([]byte{0xa9, 0x14}, vNondetBytes("h160", 20)...), 0x87)
		want = ScriptHashTy
	case 2:
		s = append([]byte{0x00, 0x14}, vNondetBytes("h160", 20)...)
		want = WitnessV0PubKeyHashTy
	case 3:
		s = append([]byte{0x00, 0x20}, vNondetBytes("h256", 32)...)
		want = WitnessV0ScriptHashTy
	case 4:
		s = append([]byte{0x51, 0x20}, vNondetBytes("xonly", 32)...)
		want = WitnessV1TaprootTy
	default:
		s = []byte{0x51, 0x02, 0x4e, 0x73}
		want = PayToAnchorTy
	}
	pk, err := ParsePkScript(s)
	vAssert(err == nil, "every supported template parses")
	vAssert(pk.Class() == want, "with its own class")
	back := pk.Script()
	vAssert(len(back) == len(s), "Script() has the template's length")
	for i := range s {
		vAssert(back[i] == s[i], "Script() returns exactly the parsed bytes")
	}
	vReach([]string{"p2pkh", "p2sh", "p2wpkh", "p2wsh", "p2tr", "anchor"}[kind])
}
