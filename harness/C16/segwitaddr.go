//verif:module address
//verif:pkg .
package address

import (
	"strings"

	"github.com/btcsuite/btcd/chaincfg/v2"
)

// C16(4): segwit addresses are bijective: for witness versions 0 and 1 and program lengths 2, 20, 32 and 40,
// whatever DecodeAddress accepts re-encodes to the same (lower-case) string and keeps version and program.
// The program bytes are a fixed pattern (the checksum is a GF(2)-linear function the bit-blasting solver does not
// close symbolically, see DESIGN.md); version, length and network are enumerated by forking.
//verif:opts reach=accepted,rejected
func VH_segwit_address_bijective() {
	nets := []*chaincfg.Params{&chaincfg.MainNetParams, &chaincfg.TestNet3Params}
	net := nets[vNondetLen("net", 1)]
	ver := byte(vNondetLen("version", 1))
	n := []int{2, 20, 32, 40}[vNondetLen("plen", 3)]
	prog := make([]byte, n)
	for i := range prog {
		prog[i] = byte(17*i + 3)
	}
	if vNondetBool("anchor") && n == 2 {
		prog[0], prog[1] = 0x4e, 0x73
	}
	s, err := encodeSegWitAddress(net.Bech32HRPSegwit, ver, prog)
	if err != nil {
		// version 0 only admits 20- and 32-byte programs
		vAssert(ver == 0 && n != 20 && n != 32, "encoding fails only for version-0 programs of the wrong length")
		vReach("rejected")
		return
	}
	// the string may be presented entirely in upper case (Bech32 is case insensitive)
	in := s
	if vNondetBool("upperCase") {
		in = strings.ToUpper(s)
	}
	a, err := DecodeAddress(in, net)
	if err != nil {
		vReach("rejected")
		return
	}
	vAssert(a.EncodeAddress() == strings.ToLower(s), "decode then encode is the identity (in lower case)")
	vAssert(a.IsForNet(net), "address belongs to the network of its prefix, whatever the case of the input")
	other := nets[1-vNondetLen("net2", 1)]
	vAssert(a.IsForNet(other) == (other == net), "and to no other network")
	sa := a.ScriptAddress()
	vAssert(len(sa) == n, "program length preserved")
	for i := 0; i < n; i++ {
		vAssert(sa[i] == prog[i], "program bytes preserved")
	}
	vReach("accepted")
}
