//verif:module address
//verif:pkg bech32
package bech32

func vData5(tag string, n int) []byte {
	d := vNondetBytes(tag, n)
	for i := range d {
		d[i] &= 31 // every 5-bit symbol, without forking per symbol
	}
	return d
}

func vLens() []int {
	if vTier() == 1 {
		return []int{0, 1, 2, 4, 8, 12}
	}
	return []int{0, 1, 4, 8}
}

// C16(1,3): decode(encode(hrp, data)) == (hrp, data, version) for both checksum constants, at the character level.
// EXPLORATORY (tier=manual: runs only with --only, not part of the registered checks): the charset mapping in front
// of the GF(2)-linear checksum leaves queries the solver answers "unknown" beyond a few symbols; the symbol-level
// harness VH_bech32_checksum_roundtrip and the concrete-payload segwit harness carry the claim instead.
//verif:opts reach=end tier=manual
func VH_bech32_roundtrip() {
	hrp := []string{"bc", "tb", "bcrt"}[vNondetLen("hrp", 2)]
	lens := vLens()
	n := lens[vNondetLen("n", len(lens)-1)]
	data := vData5("data", n)
	ver := Version0
	if vNondetBool("m") {
		ver = VersionM
	}
	s, err := encodeGeneric(hrp, data, ver)
	vAssert(err == nil, "encode of 5-bit data succeeds")
	vAssert(len(s) == len(hrp)+1+n+6, "encoded length = hrp + 1 + data + 6")
	gotHrp, gotData, gotVer, err := DecodeGeneric(s)
	vAssert(err == nil, "decode of own encoding succeeds")
	vAssert(gotHrp == hrp && gotVer == ver, "hrp and checksum version round trip")
	vAssert(len(gotData) == n, "data length round trips")
	for i := 0; i < n; i++ {
		vAssert(gotData[i] == data[i], "data round trips")
	}
	vReach("end")
}

// C16(1): error detection: changing one or two data symbols of a valid string is always detected, and a
// bech32 string never verifies as bech32m (or vice versa)
//verif:opts reach=end affine=1
func VH_bech32_error_detection() {
	hrp := "bc"
	lens := []int{1, 6}
	if vTier() == 1 {
		lens = []int{1, 2, 6, 8}
	}
	n := lens[vNondetLen("n", len(lens)-1)]
	data := vData5("data", n)
	ver := Version0
	if vNondetBool("m") {
		ver = VersionM
	}
	// checksum symbols of the valid string
	polymod := bech32Polymod(hrp, data, nil) ^ int(VersionToConsts[ver])
	chk := make([]byte, 6)
	for i := 0; i < 6; i++ {
		chk[i] = byte((polymod >> uint(5*(5-i))) & 31)
	}
	full := append(append([]byte{}, data...), chk...)
	v0, ok0 := bech32VerifyChecksum(hrp, full)
	vAssert(ok0 && v0 == ver, "the valid string verifies with its own version")
	// substitute up to two symbols anywhere (data or checksum)
	i := vNondetLen("i", len(full)-1)
	j := i + vNondetLen("j", len(full)-1-i) // positions i <= j
	e1 := vNondetU8("e1")
	e2 := vNondetU8("e2")
	vAssume(e1 < 32 && e2 < 32 && (e1 != 0 || e2 != 0))
	vAssume(i != j || e1 != e2)
	bad := append([]byte{}, full...)
	bad[i] ^= e1
	bad[j] ^= e2
	_, ok := bech32VerifyChecksum(hrp, bad)
	vAssert(!ok, "one or two substituted symbols are always detected (under either checksum constant)")
	vReach("end")
}

// C16(2): ConvertBits 8 -> 5 -> 8 is the identity; padding rules
//verif:opts reach=end
func VH_convert_bits() {
	lens := []int{0, 1, 2, 3, 5, 20}
	if vTier() == 1 {
		lens = []int{0, 1, 2, 3, 4, 5, 6, 7, 20, 32, 40}
	}
	n := lens[vNondetLen("n", len(lens)-1)]
	in := vNondetBytes("in", n)
	five, err := ConvertBits(in, 8, 5, true)
	vAssert(err == nil, "8->5 with padding never fails")
	vAssert(len(five) == (n*8+4)/5, "8->5 output length")
	for _, b := range five {
		vAssert(b < 32, "5-bit groups")
	}
	back, err := ConvertBits(five, 5, 8, false)
	vAssert(err == nil, "5->8 of padded data succeeds")
	vAssert(len(back) == n, "8->5->8 length")
	for i := 0; i < n; i++ {
		vAssert(back[i] == in[i], "8->5->8 identity")
	}
	vReach("end")
}

// C16(2): 5 -> 8 without padding rejects non-zero padding bits and more than 4 padding bits
//verif:opts reach=accept,reject
func VH_convert_bits_padding() {
	n := 1 + vNondetLen("n", 8)
	five := vData5("five", n)
	out, err := ConvertBits(five, 5, 8, false)
	rem := (n * 5) % 8
	if err != nil {
		last := five[n-1]
		vAssert(rem > 4 || last&byte((1<<uint(rem))-1) != 0, "rejected only for >4 padding bits or non-zero padding")
		vReach("reject")
		return
	}
	vAssert(rem <= 4, "at most 4 padding bits accepted")
	vAssert(five[n-1]&byte((1<<uint(rem))-1) == 0, "accepted padding bits are zero")
	vAssert(len(out) == n*5/8, "output length")
	vReach("accept")
}

// C16(3): a string of printable characters that mixes lower- and upper-case letters is rejected as mixed case
// (whatever else is wrong with it); never panics.
//verif:opts reach=mixed
func VH_bech32_mixed_case() {
	n := 8 + vNondetLen("n", 2+10*vTier())
	b := vNondetBytes("s", n)
	hasLower, hasUpper := false, false
	for i := 0; i < n; i++ {
		c := b[i]
		vAssume(c >= 33 && c <= 126)
		hasLower = hasLower || (c >= 'a' && c <= 'z')
		hasUpper = hasUpper || (c >= 'A' && c <= 'Z')
	}
	vAssume(hasLower && hasUpper)
	_, _, _, err := DecodeGeneric(string(b))
	_, isMixed := err.(ErrMixedCase)
	vAssert(err != nil && isMixed, "mixed-case strings are rejected as mixed case")
	vReach("mixed")
}

// C16(3): a byte outside 33..126 anywhere in the string is rejected
//verif:opts reach=badchar
func VH_bech32_bad_char() {
	n := 8 + vNondetLen("n", 2)
	b := make([]byte, n)
	for i := range b {
		b[i] = 'q'
	}
	b[2] = '1'
	i := vNondetLen("pos", n-1)
	c := vNondetU8("c")
	vAssume(c < 33 || c > 126)
	b[i] = c
	_, _, _, err := DecodeGeneric(string(b))
	vAssert(err != nil, "a character outside 33..126 is rejected")
	vReach("badchar")
}

// C16(1): checksum round trip at the symbol level: verify(data || checksum(data)) reports the version used, for
// data of 0..71 five-bit symbols (GF(2)-affine normalisation, see engine/symex/affine.py)
//verif:opts reach=end affine=1
func VH_bech32_checksum_roundtrip() {
	hrp := []string{"bc", "tb", "bcrt"}[vNondetLen("hrp", 2)]
	lens := []int{0, 1, 8, 33}
	if vTier() == 1 {
		lens = []int{0, 1, 2, 8, 33, 53, 71}
	}
	n := lens[vNondetLen("n", len(lens)-1)]
	data := vData5("data", n)
	ver := Version0
	if vNondetBool("m") {
		ver = VersionM
	}
	polymod := bech32Polymod(hrp, data, nil) ^ int(VersionToConsts[ver])
	full := append([]byte{}, data...)
	for i := 0; i < 6; i++ {
		full = append(full, byte((polymod>>uint(5*(5-i)))&31))
	}
	v, ok := bech32VerifyChecksum(hrp, full)
	vAssert(ok && v == ver, "verify(data || checksum(data)) == version used")
	// and never under the other constant
	other := VersionM
	if ver == VersionM {
		other = Version0
	}
	vAssert(v != other, "a bech32 string does not verify as bech32m and vice versa")
	vReach("end")
}
