//verif:module address
//verif:pkg .
package address

import "github.com/btcsuite/btcd/chaincfg/v2"

// C16(8): Base58Check addresses are network separated: a pay-to-pubkey-hash or pay-to-script-hash address built for
// network X (mainnet, testnet3, regtest, simnet) encodes to a string that DecodeAddress accepts under network Y iff
// Y uses the same version byte for that address kind; when accepted it is of the same kind, carries the same hash,
// belongs to Y (IsForNet) and re-encodes to the same string.  (The 20-byte hash is a fixed pattern: base-58 radix
// conversion and the double-SHA256 checksum run concretely.)
//verif:opts reach=accepted,rejected
func VH_base58_address_network_separation() {
	nets := []*chaincfg.Params{&chaincfg.MainNetParams, &chaincfg.TestNet3Params, &chaincfg.RegressionNetParams, &chaincfg.SimNetParams}
	x := nets[vNondetLen("builtFor", 3)]
	y := nets[vNondetLen("decodedUnder", 3)]
	h := make([]byte, 20)
	for i := range h {
		h[i] = byte(11*i + 5)
	}
	isScript := vNondetBool("scriptHash")
	var a Address
	var err error
	if isScript {
		a, err = NewAddressScriptHashFromHash(h, x)
	} else {
		a, err = NewAddressPubKeyHash(h, x)
	}
	vAssert(err == nil, "address builds")
	s := a.EncodeAddress()
	got, derr := DecodeAddress(s, y)
	same := x.PubKeyHashAddrID == y.PubKeyHashAddrID
	if isScript {
		same = x.ScriptHashAddrID == y.ScriptHashAddrID
	}
	if !same {
		vAssert(derr != nil, "an address of another network (different version byte) is rejected")
		vReach("rejected")
		return
	}
	vAssert(derr == nil, "an address with the network's own version byte is accepted")
	vAssert(got.IsForNet(y), "the decoded address belongs to the network it was decoded under")
	vAssert(got.EncodeAddress() == s, "decode then encode is the identity")
	_, isSH := got.(*AddressScriptHash)
	vAssert(isSH == isScript, "address kind preserved")
	sa := got.ScriptAddress()
	for i := range h {
		vAssert(sa[i] == h[i], "hash preserved")
	}
	vReach("accepted")
}
