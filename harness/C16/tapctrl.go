//verif:module txscript
//verif:pkg .
package txscript

import (
	"bytes"

	"github.com/btcsuite/btcd/btcec/v2"
)

// the tweak (internal key + H(key||root)*G) is elliptic-curve arithmetic: out of reach, and irrelevant to the
// statement checked here, which is about the merkle part of the control block.  Stubbed by the identity on the key.
func vStubTaprootOutputKey(pubKey *btcec.PublicKey, scriptRoot []byte) *btcec.PublicKey { return pubKey }

// secp256k1 generator, compressed
var vGenKey = []byte{0x02,
	0x79, 0xbe, 0x66, 0x7e, 0xf9, 0xdc, 0xbb, 0xac, 0x55, 0xa0, 0x62, 0x95, 0xce, 0x87, 0x0b, 0x07,
	0x02, 0x9b, 0xfc, 0xdb, 0x2d, 0xce, 0x28, 0xd9, 0x59, 0xf2, 0x81, 0x5b, 0x16, 0xf8, 0x17, 0x98}

// C16(7): every leaf of a taproot script tree has a control block that proves it: for every tree of 1..N leaves
// with arbitrary (even) leaf versions, the control block derived from leaf i's proof announces leaf i's version
// and its inclusion proof hashes leaf i up to exactly the root the output key commits to; serialising and parsing
// the control block preserves version, parity and proof.  (Tagged hashes are uninterpreted functions, assumed
// collision free on the leaves of the tree; the curve tweak is stubbed.)
//verif:opts reach=end override=ComputeTaprootOutputKey:vStubTaprootOutputKey novalidate=1
func VH_taproot_control_block_proves_leaf() {
	n := 1 + vNondetLen("nleaves", 2+2*vTier())
	key, kerr := btcec.ParsePubKey(vGenKey)
	if kerr != nil {
		return
	}
	leaves := make([]TapLeaf, n)
	for i := range leaves {
		leaves[i] = NewTapLeaf(TapscriptLeafVersion(vNondetU8("leafVersion")&0xfe), []byte{byte(0x51 + i)})
	}
	for i := 0; i < n; i++ {
		for j := i + 1; j < n; j++ {
			hi, hj := leaves[i].TapHash(), leaves[j].TapHash()
			vAssume(hi != hj)
		}
	}
	tree := AssembleTaprootScriptTree(leaves...)
	root := tree.RootNode.TapHash()
	i := vNondetLen("leaf", n-1)
	proof := tree.LeafMerkleProofs[i]
	cb := proof.ToControlBlock(key)
	vAssert(cb.LeafVersion == leaves[i].LeafVersion, "control block announces the proved leaf's own version")
	vAssert(len(cb.InclusionProof)%32 == 0 && len(cb.InclusionProof) <= 32*128, "inclusion proof is a list of at most 128 hashes")
	vAssert(bytes.Equal(cb.RootHash(leaves[i].Script), root[:]), "control block hashes the leaf up to the committed root")
	raw, err := cb.ToBytes()
	vAssert(err == nil && len(raw) == 33+len(cb.InclusionProof), "control block serialises")
	vAssert(raw[0]&0xfe == byte(leaves[i].LeafVersion) && (raw[0]&1 == 1) == cb.OutputKeyYIsOdd, "first byte = leaf version | parity")
	back, err := ParseControlBlock(raw)
	if err == nil {
		vAssert(back.LeafVersion == cb.LeafVersion && back.OutputKeyYIsOdd == cb.OutputKeyYIsOdd &&
			bytes.Equal(back.InclusionProof, cb.InclusionProof), "parse(serialise(cb)) == cb")
		vAssert(bytes.Equal(back.RootHash(leaves[i].Script), root[:]), "parsed control block proves the leaf")
	}
	vReach("end")
}
