//verif:module address
//verif:pkg base58
package base58

import "math/big"

// C16(9): the radix table behind the 10-digits-at-a-time Base58 decoder is what its use requires: bigRadix[n] ==
// 58^n for n = 1..10 (the decoder multiplies the running value by bigRadix[n] before adding an n-digit group, and the
// last group of a string has len mod 10 digits), computed here by repeated multiplication.
//verif:opts reach=end
func VH_base58_radix_table() {
	n := 1 + vNondetLen("n", 9)
	want := big.NewInt(1)
	for i := 0; i < n; i++ {
		want.Mul(want, big.NewInt(58))
	}
	vAssert(bigRadix[n].Cmp(want) == 0, "bigRadix[n] == 58^n")
	vAssert(bigRadix10.Cmp(bigRadix[10]) == 0, "bigRadix10 is the last entry")
	vReach("end")
}

// C16(9'): Base58Check round trip across every final-group length: a 21-byte payload (version byte + 20-byte hash)
// with 0..20 leading zero bytes (so that the encoded length runs through all residues mod 10, leading '1's
// included) survives CheckEncode -> CheckDecode with the same version and bytes; Decode(Encode(x)) == x.  (Fixed
// byte pattern after the zeros: radix conversion and checksum run concretely; the symbolic choice is the number of
// zero bytes and the version.)
//verif:opts reach=end
func VH_base58check_roundtrip_all_group_lengths() {
	zeros := vNondetLen("zeros", 20)
	version := []byte{0x00, 0x05, 0x6f, 0xc4}[vNondetLen("version", 3)]
	h := make([]byte, 20)
	for i := zeros; i < 20; i++ {
		h[i] = byte(37*i + 11)
	}
	s := CheckEncode(h, version)
	got, v, err := CheckDecode(s)
	vAssert(err == nil, "own encoding passes the checksum")
	vAssert(v == version && len(got) == 20, "version and length survive")
	for i := range h {
		vAssert(got[i] == h[i], "payload survives")
	}
	raw := append([]byte{version}, h...)
	back := Decode(Encode(raw))
	vAssert(len(back) == len(raw), "Decode(Encode(x)) has x's length")
	for i := range raw {
		vAssert(back[i] == raw[i], "Decode(Encode(x)) == x")
	}
	vReach("end")
}
