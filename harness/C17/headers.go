//verif:module .
//verif:pkg blockchain
package blockchain

import (
	"math/big"

	"github.com/btcsuite/btcd/chaincfg/v2"
	"github.com/btcsuite/btcd/wire/v2"
)

// C17(7): header acceptance never builds on a block known to be invalid - whether the parent failed validation
// itself or is only invalid through an ancestor - and reports an unknown parent; in both cases the index is not
// extended.  (Headers with a valid parent continue into the sanity / context checks, covered under C01/C09; here the
// header carries an impossible target so that it stops there.)
//verif:opts reach=invalidparent,unknownparent,validparent
func VH_header_on_invalid_parent_rejected() {
	params := &chaincfg.Params{PowLimit: big.NewInt(1)}
	b := &BlockChain{chainParams: params, index: newBlockIndex(nil, params), timeSource: NewMedianTime()}
	parent := &blockNode{workSum: big.NewInt(0), height: 5}
	parent.hash[0] = 0x42
	parent.status = statusDataStored
	if vNondetBool("failed") {
		parent.status |= statusValidateFailed
	}
	if vNondetBool("invalidAncestor") {
		parent.status |= statusInvalidAncestor
	}
	b.index.addNode(parent)
	b.bestHeader = newChainView(parent)
	hdr := &wire.BlockHeader{Version: 4, Bits: 0, Nonce: 7} // concrete: its hash is the real double-SHA256, never an index key
	known := vNondetBool("parentKnown")
	if known {
		hdr.PrevBlock = parent.hash
	} else {
		hdr.PrevBlock[0] = 0x43
	}
	before := len(b.index.index)
	ok, err := b.maybeAcceptBlockHeader(hdr, BFNone, true)
	vAssert(!ok && err != nil, "such a header is never accepted")
	vAssert(len(b.index.index) == before, "the block index is not extended by a rejected header")
	re, isRule := err.(RuleError)
	switch {
	case !known:
		vAssert(isRule && re.ErrorCode == ErrPreviousBlockUnknown, "unknown parent is reported as such")
		vReach("unknownparent")
	case parent.status.KnownInvalid():
		vAssert(isRule && re.ErrorCode == ErrInvalidAncestorBlock, "a header on any known-invalid parent is rejected as invalid-ancestor")
		vReach("invalidparent")
	default:
		vAssert(!isRule || re.ErrorCode != ErrInvalidAncestorBlock, "a valid parent is not the reason for rejection")
		vReach("validparent")
	}
}
