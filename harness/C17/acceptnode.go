//verif:module .
//verif:pkg blockchain
package blockchain

import (
	"time"

	"github.com/btcsuite/btcd/btcutil/v2"
	"github.com/btcsuite/btcd/chaincfg/v2"
	"github.com/btcsuite/btcd/database"
	"github.com/btcsuite/btcd/wire/v2"
)

type vAccDB struct{ database.DB }

func (d *vAccDB) Update(fn func(tx database.Tx) error) error { return fn(nil) }

var vAccNode *blockNode

func vStubAccContext(b *BlockChain, block *btcutil.Block, prevNode *blockNode, flags BehaviorFlags) error {
	return nil
}
func vStubAccStore(dbTx database.Tx, block *btcutil.Block) error { return nil }
func vStubAccFlush(bi *blockIndex) error                         { return nil }
func vStubAccConnect(b *BlockChain, node *blockNode, block *btcutil.Block, flags BehaviorFlags) (bool, error) {
	vAccNode = node
	return false, nil
}

// C17(8): one index entry per block: when the full block arrives for a header the node already knows - whether
// that header is on the best header chain or on a header side chain, and whether or not a child header already
// points at it - maybeAcceptBlock upgrades the EXISTING index entry (same node object, now marked as having data)
// and hands that very node on; it never creates a second node for the hash, so children accepted earlier keep
// pointing at the entry the index returns.  A block without a known header gets a fresh entry under its parent.
//verif:opts reach=existing,fresh noverride=validate.go:BlockChain.checkBlockContext:vStubAccContext;chainio.go:dbStoreBlock:vStubAccStore;blockindex.go:blockIndex.flushToDB:vStubAccFlush;chain.go:BlockChain.connectBestChain:vStubAccConnect
func VH_block_arrival_upgrades_header_node() {
	params := &chaincfg.Params{}
	b := &BlockChain{chainParams: params, index: newBlockIndex(nil, params), db: &vAccDB{}}
	vAccNode = nil
	mkHdr := func(parent *blockNode, nonce uint32) *wire.BlockHeader {
		h := &wire.BlockHeader{Version: 4, Bits: 0x207fffff, Nonce: nonce, Timestamp: time.Unix(1600000000, 0)}
		if parent != nil {
			h.PrevBlock = parent.hash
		}
		return h
	}
	g := newBlockNode(mkHdr(nil, 1), nil)
	g.status = statusDataStored | statusValid
	b.index.AddNode(g)
	// a competing header chain a1 so that b1 may or may not be on the best header chain
	a1 := newBlockNode(mkHdr(g, 2), g)
	a1.status = statusHeaderStored
	b.index.AddNode(a1)
	hb1 := mkHdr(g, 3)
	headerKnown := vNondetBool("headerKnown")
	var b1, child *blockNode
	if headerKnown {
		b1 = newBlockNode(hb1, g)
		b1.status = statusHeaderStored
		b.index.AddNode(b1)
		if vNondetBool("childHeaderKnown") {
			child = newBlockNode(mkHdr(b1, 4), b1)
			child.status = statusHeaderStored
			b.index.AddNode(child)
		}
	}
	bestIsB := headerKnown && vNondetBool("onBestHeaderChain")
	if bestIsB {
		b.bestHeader = newChainView(b1)
	} else {
		b.bestHeader = newChainView(a1)
	}
	b.bestChain = newChainView(g)
	msg := &wire.MsgBlock{Header: *hb1}
	msg.AddTransaction(wire.NewMsgTx(1))
	blk := btcutil.NewBlock(msg)
	before := len(b.index.index)
	b.chainLock.Lock() // maybeAcceptBlock is called with the chain lock held
	_, err := b.maybeAcceptBlock(blk, BFNone)
	vAssert(err == nil, "the block is accepted")
	got := b.index.LookupNode(blk.Hash())
	vAssert(got != nil && got == vAccNode, "the node handed to chain selection is the one the index returns")
	vAssert(got.status.HaveData(), "and is marked as having block data")
	if headerKnown {
		vAssert(got == b1, "the existing header entry is upgraded, not replaced")
		vAssert(len(b.index.index) == before, "no second entry for the same block")
		if child != nil {
			vAssert(child.parent == got, "a child header accepted earlier still points at the entry the index returns")
		}
		vReach("existing")
	} else {
		vAssert(len(b.index.index) == before+1 && got.parent == g && got.height == 1, "a block without a known header gets a fresh entry under its parent")
		vReach("fresh")
	}
}
