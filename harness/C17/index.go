//verif:module .
//verif:pkg blockchain
package blockchain

import "math/big"

// ---- helpers: chains built directly (no hashing, no database); hashes are distinct concrete labels.
func vMkChain(parent *blockNode, n int, label byte) []*blockNode {
	out := make([]*blockNode, 0, n)
	for i := 0; i < n; i++ {
		nd := &blockNode{parent: parent, workSum: big.NewInt(0)}
		if parent != nil {
			nd.height = parent.height + 1
		}
		nd.hash[0] = label
		nd.hash[1] = byte(nd.height)
		nd.hash[2] = byte(nd.height >> 8)
		nd.buildAncestor()
		out = append(out, nd)
		parent = nd
	}
	return out
}

// naive parent walk (the specification of Ancestor)
func specAncestor(n *blockNode, h int32) *blockNode {
	if h < 0 || h > n.height {
		return nil
	}
	for n != nil && n.height != h {
		n = n.parent
	}
	return n
}

// C17(1): skip pointers point strictly backwards: 0 <= g(h) < h for every h > 0 (all int32).
//verif:opts reach=end
func VH_ancestor_height_backwards() {
	h := vNondetI32("h")
	vAssume(h > 0)
	g := getAncestorHeight(h)
	vAssert(g >= 0, "getAncestorHeight(h) >= 0")
	vAssert(g < h, "getAncestorHeight(h) < h")
	// definition: clear the two lowest set bits
	x := uint32(h)
	cleared := 0
	for i := uint(0); i < 32 && cleared < 2; i++ {
		if x&(1<<i) != 0 {
			x &^= 1 << i
			cleared++
		}
	}
	vAssert(uint32(g) == x, "getAncestorHeight clears the two lowest set bits")
	vObserve("g", uint64(uint32(g)))
	vReach("end")
}

// C17(2): fastLog2Floor(n) == floor(log2 n) for all uint32 n > 0.
//verif:opts reach=end
func VH_fastlog2() {
	n := vNondetU32("n")
	vAssume(n > 0)
	r := fastLog2Floor(n)
	vAssert(r < 32, "result below 32")
	vAssert(n>>r == 1, "n >> floor(log2 n) == 1")
	vObserve("r", uint64(r))
	vReach("end")
}

// C17(3): Ancestor / RelativeAncestor / IsAncestor == naive parent walk, chains built with the real
// buildAncestor, requested height any int32 (negative, beyond the tip).
//verif:opts reach=end
func VH_ancestor_equals_parent_walk() {
	L := 28
	if vTier() == 1 {
		L = 150
	}
	chain := vMkChain(nil, L, 1)
	from := vNondetLen("from", L-1)
	node := chain[from]
	h := vNondetI32("h")
	got := node.Ancestor(h)
	want := specAncestor(node, h)
	vAssert(got == want, "Ancestor(h) == naive parent walk")
	vReach("end")
}

// C17(3'): RelativeAncestor(d) == Ancestor(height - d) == naive parent walk, including distances beyond genesis (nil).
//verif:opts reach=end
func VH_relative_ancestor() {
	L := 20
	if vTier() == 1 {
		L = 100
	}
	chain := vMkChain(nil, L, 1)
	node := chain[vNondetLen("from", L-1)]
	d := vNondetI32("d")
	vAssert(node.RelativeAncestor(d) == specAncestor(node, node.height-d) || node.height-d > node.height, "RelativeAncestor(d) == walk to height-d")
	// IsAncestor: true exactly for proper ancestors on the same chain
	other := chain[vNondetLen("other", L-1)]
	vAssert(node.IsAncestor(other) == (other.height < node.height), "IsAncestor(other) iff other is a proper ancestor")
	side := vMkChain(chain[0], 2, 2)
	vAssert(!node.IsAncestor(side[1]) || node.height < 2, "a node on another branch is not an ancestor")
	vReach("end")
}

// C17(4): chainView.setTip / findFork / contains / next / nodeByHeight on two-branch trees, tip switched
// back and forth, == naive definitions.
//verif:opts reach=end
func VH_chainview_two_branches() {
	M := 4
	if vTier() == 1 {
		M = 8
	}
	main := vMkChain(nil, 1+vNondetLen("mainLen", M), 1)
	forkAt := vNondetLen("forkAt", len(main)-1)
	side := vMkChain(main[forkAt], 1+vNondetLen("sideLen", M), 2)
	view := newChainView(main[len(main)-1])
	check := func(tipBranch []*blockNode, other []*blockNode, forkNode *blockNode) {
		tip := tipBranch[len(tipBranch)-1]
		vAssert(view.Tip() == tip, "Tip() is the tip that was set")
		vAssert(view.Height() == tip.height, "Height() == tip height")
		vAssert(view.Genesis() == main[0], "Genesis() is the root")
		// every node on the active branch is contained, has the right next, and is found by height
		for n := tip; n != nil; n = n.parent {
			vAssert(view.Contains(n), "active-branch node is contained")
			vAssert(view.NodeByHeight(n.height) == n, "NodeByHeight(h) is the active node at h")
			if n.parent != nil {
				vAssert(view.Next(n.parent) == n, "Next(parent) == child on the active branch")
			}
			vAssert(view.FindFork(n) == n, "FindFork of an active node is itself")
		}
		vAssert(view.Next(tip) == nil, "Next(tip) == nil")
		// nodes of the other branch beyond the fork are not contained; their fork is forkNode
		for _, n := range other {
			if n.height > forkNode.height {
				vAssert(!view.Contains(n), "inactive-branch node is not contained")
				vAssert(view.FindFork(n) == forkNode, "FindFork(inactive node) == fork point")
				vAssert(view.Next(n) == nil, "Next(inactive node) == nil")
			}
		}
	}
	check(main, side, main[forkAt])
	view.SetTip(side[len(side)-1])
	sideFull := append(append([]*blockNode{}, main[:forkAt+1]...), side...)
	check(sideFull, main, main[forkAt])
	view.SetTip(main[len(main)-1])
	check(main, side, main[forkAt])
	hq := vNondetI32("hq")
	nb := view.NodeByHeight(hq)
	if hq < 0 || hq > main[len(main)-1].height {
		vAssert(nb == nil, "NodeByHeight out of range == nil")
	} else {
		vAssert(nb == specAncestor(main[len(main)-1], hq), "NodeByHeight(h) == ancestor of tip at h")
	}
	vReach("end")
}

// C17(5): blockLocator: first 11 entries step 1 then doubling, ends at genesis, strictly decreasing
// heights, exactly the precomputed number of entries - for active and side-branch nodes.
//verif:opts reach=end
func VH_block_locator() {
	L := 45
	if vTier() == 1 {
		L = 300
	}
	main := vMkChain(nil, L, 1)
	forkAt := vNondetLen("forkAt", L-1)
	var node *blockNode
	sideLen := vNondetLen("sideLen", 3)
	if sideLen > 0 {
		side := vMkChain(main[forkAt], sideLen, 2)
		node = side[len(side)-1]
	} else {
		node = main[forkAt]
	}
	view := newChainView(main[L-1])
	loc := view.BlockLocator(node)
	vAssert(len(loc) >= 1 && *loc[0] == node.hash, "locator starts with the node itself")
	// specification
	h := node.height
	step := int32(1)
	i := 0
	for {
		want := specAncestor(node, h)
		vAssert(i < len(loc) && *loc[i] == want.hash, "locator entry is the ancestor at the specified height")
		i++
		if h == 0 {
			break
		}
		h -= step
		if h < 0 {
			h = 0
		}
		if i > 10 {
			step *= 2
		}
	}
	vAssert(i == len(loc), "locator has exactly the specified entries (ends at genesis)")
	vAssert(len(loc) <= cap(loc), "within preallocated capacity")
	vObserve("n", uint64(len(loc)))
	vReach("end")
}
