//verif:module .
//verif:pkg blockchain
package blockchain

import (
	"math/big"
	"time"

	"github.com/btcsuite/btcd/btcutil/v2"
	"github.com/btcsuite/btcd/chaincfg/v2"
	"github.com/btcsuite/btcd/chainhash/v2"
	"github.com/btcsuite/btcd/database"
	"github.com/btcsuite/btcd/wire/v2"
)

// the database knows no block the index does not know (the index is loaded completely at start-up)
type vPBDB struct{ database.DB }
type vPBTx struct{ database.Tx }

func (d *vPBDB) View(fn func(tx database.Tx) error) error   { return fn(&vPBTx{}) }
func (t *vPBTx) HasBlock(h *chainhash.Hash) (bool, error) { return false, nil }

var vPBAccepted []*btcutil.Block

func vStubPBSanity(block *btcutil.Block, powLimit *big.Int, ts MedianTimeSource, flags BehaviorFlags) error {
	return nil
}
func vStubPBCheckpoint(b *BlockChain) (*blockNode, error) { return nil, nil }
func vStubPBAccept(b *BlockChain, block *btcutil.Block, flags BehaviorFlags) (bool, error) {
	vPBAccepted = append(vPBAccepted, block)
	return true, nil
}
func vStubPBOrphans(b *BlockChain, hash *chainhash.Hash, flags BehaviorFlags) error { return nil }

// C17(9) / C02: headers-first tracking at block arrival, the dispatch in ProcessBlock (validation, acceptance and
// the orphan cascade are environment): a block is handed to acceptance iff the DATA of its parent is present - a
// parent that is unknown, or known only as a header (headers-first), makes the block an orphan that is kept in the
// orphan pool under its parent's hash, to be retried when the parent's data arrives; a block whose data the index
// already has, or that is already an orphan, is refused as a duplicate; a block known only as a header is NOT a
// duplicate.
//verif:opts reach=accepted,orphan_unknown,orphan_headeronly,duplicate,duporphan noverride=validate.go:checkBlockSanity:vStubPBSanity;checkpoints.go:BlockChain.findPreviousCheckpoint:vStubPBCheckpoint;accept.go:BlockChain.maybeAcceptBlock:vStubPBAccept;process.go:BlockChain.processOrphans:vStubPBOrphans
func VH_process_block_parent_data_gate() {
	params := &chaincfg.Params{}
	b := &BlockChain{chainParams: params, index: newBlockIndex(nil, params), db: &vPBDB{},
		orphans: make(map[chainhash.Hash]*orphanBlock), prevOrphans: make(map[chainhash.Hash][]*orphanBlock)}
	vPBAccepted = nil
	mkHdr := func(prev chainhash.Hash, nonce uint32) wire.BlockHeader {
		return wire.BlockHeader{Version: 4, Bits: 0x207fffff, Nonce: nonce, Timestamp: time.Unix(1600000000, 0), PrevBlock: prev}
	}
	gh := mkHdr(chainhash.Hash{}, 1)
	g := newBlockNode(&gh, nil)
	g.status = statusDataStored | statusValid
	b.index.AddNode(g)
	// the parent: unknown to the index, header only, or with data
	ph := mkHdr(g.hash, 2)
	parentState := vNondetLen("parentState", 2)
	if parentState > 0 {
		p := newBlockNode(&ph, g)
		p.status = statusHeaderStored
		if parentState == 2 {
			p.status = statusDataStored
		}
		b.index.AddNode(p)
	}
	bh := mkHdr(ph.BlockHash(), 3)
	block := btcutil.NewBlock(&wire.MsgBlock{Header: bh})
	// the block itself: unknown, known as a header, known with data, or already an orphan
	selfState := vNondetLen("selfState", 3)
	switch selfState {
	case 1, 2:
		vAssume(parentState > 0)
		n := newBlockNode(&bh, b.index.LookupNode(&bh.PrevBlock))
		n.status = statusHeaderStored
		if selfState == 2 {
			n.status = statusDataStored
		}
		b.index.AddNode(n)
	case 3:
		b.addOrphanBlock(block)
	}
	isMain, isOrphan, err := b.ProcessBlock(block, BFNone)
	_, pooled := b.orphans[*block.Hash()]
	switch {
	case selfState == 2:
		re, ok := err.(RuleError)
		vAssert(ok && re.ErrorCode == ErrDuplicateBlock && len(vPBAccepted) == 0, "a block whose data is already stored is a duplicate")
		vReach("duplicate")
	case selfState == 3:
		re, ok := err.(RuleError)
		vAssert(ok && re.ErrorCode == ErrDuplicateBlock && len(vPBAccepted) == 0 && pooled, "an orphan delivered again is a duplicate and stays pooled")
		vReach("duporphan")
	case parentState < 2:
		vAssert(err == nil && isOrphan && !isMain, "without the parent's data the block is an orphan")
		vAssert(len(vPBAccepted) == 0, "and is not handed to acceptance")
		vAssert(pooled && len(b.prevOrphans[bh.PrevBlock]) == 1, "it waits in the orphan pool under its parent's hash")
		if parentState == 0 {
			vReach("orphan_unknown")
		} else {
			vReach("orphan_headeronly")
		}
	default:
		vAssert(err == nil && !isOrphan && isMain, "with the parent's data present the block goes on")
		vAssert(len(vPBAccepted) == 1 && vPBAccepted[0] == block && !pooled, "to acceptance, exactly once, and is not pooled")
		vReach("accepted")
	}
}
