//verif:module .
//verif:pkg blockchain
package blockchain

import (
	"github.com/btcsuite/btcd/chaincfg/v2"
	"github.com/btcsuite/btcd/chainhash/v2"
)

// C17(6): locateInventory / locateBlocks over a tree (main chain of 7, side branch of 2): the answer is "the
// successors of the first locator entry found on the main chain (genesis if none), up to and including the stop
// hash if it is on the main chain at or after the start, never more than the maximum".  Locator entries and the
// stop hash are chosen among main-chain, side-chain and unknown hashes; the maximum is symbolic.
//verif:opts reach=end
func VH_locate_inventory() {
	main := vMkChain(nil, 7, 1)
	side := vMkChain(main[2], 2, 2)
	params := &chaincfg.Params{}
	b := &BlockChain{index: newBlockIndex(nil, params), bestChain: newChainView(main[len(main)-1])}
	for _, n := range main {
		b.index.addNode(n)
	}
	for _, n := range side {
		b.index.addNode(n)
	}
	pick := func(tag string) (*chainhash.Hash, *blockNode) {
		k := vNondetLen(tag, 9)
		switch {
		case k < 7:
			return &main[k].hash, main[k]
		case k < 9:
			return &side[k-7].hash, side[k-7]
		}
		var unknown chainhash.Hash
		unknown[0] = 0xee
		return &unknown, nil
	}
	nloc := vNondetLen("nloc", 2)
	var locator BlockLocator
	var locNodes []*blockNode
	for i := 0; i < nloc; i++ {
		h, n := pick("loc")
		locator = append(locator, h)
		locNodes = append(locNodes, n)
	}
	stopHash, stopNode := pick("stop")
	max := vNondetU32("max")
	start, total := b.locateInventory(locator, stopHash, max)
	// ---- specification
	if nloc == 0 {
		if stopNode == nil {
			vAssert(start == nil && total == 0, "no locator and unknown stop: nothing")
		} else {
			vAssert(start == stopNode && total == 1, "no locator: just the stop block")
		}
		vReach("end")
		return
	}
	from := main[0]
	for _, n := range locNodes {
		if n != nil && n.hash[0] == 1 { // on the main chain
			from = n
			break
		}
	}
	if from.height == 6 {
		vAssert(start == nil && total == 0, "nothing after the tip")
		vReach("end")
		return
	}
	first := main[from.height+1]
	last := main[6]
	if stopNode != nil && stopNode.hash[0] == 1 && stopNode.height >= first.height {
		last = stopNode
	}
	want := uint32(last.height-first.height) + 1
	if want > max {
		want = max
	}
	vAssert(start == first && total == want, "successors of the first main-chain locator entry, cut at the stop hash or the maximum")
	got := b.locateBlocks(locator, stopHash, max)
	vAssert(uint32(len(got)) == want, "locateBlocks returns that many hashes")
	for i := range got {
		vAssert(got[i] == main[int(first.height)+i].hash, "hashes are consecutive main-chain blocks")
	}
	vReach("end")
}

// C17(6'): HeightRange(start, end) on a main chain of 1..6 blocks with a side branch: an error for start < 0 or
// end < start; otherwise exactly the main-chain hashes at heights start .. min(end, tip+1)-1 in order - in particular
// the tip itself for HeightRange(tip, tip+1) - for all start / end (symbolic int32).
//verif:opts reach=ok,err
func VH_height_range() {
	n := 1 + vNondetLen("chainLen", 5)
	main := vMkChain(nil, n, 1)
	params := &chaincfg.Params{}
	b := &BlockChain{index: newBlockIndex(nil, params), bestChain: newChainView(main[n-1])}
	for _, nd := range main {
		b.index.addNode(nd)
	}
	if n >= 2 {
		for _, nd := range vMkChain(main[0], 2, 2) {
			b.index.addNode(nd)
		}
	}
	start, end := vNondetI32("start"), vNondetI32("end")
	got, err := b.HeightRange(start, end)
	if start < 0 || end < start {
		vAssert(err != nil, "invalid ranges are an error")
		vReach("err")
		return
	}
	vAssert(err == nil, "valid ranges succeed")
	hi := int64(end)
	if hi > int64(n) {
		hi = int64(n)
	}
	want := hi - int64(start)
	if want < 0 {
		want = 0
	}
	vAssert(int64(len(got)) == want, "exactly the heights start .. min(end, tip+1)-1")
	for i := range got {
		vAssert(got[i] == main[int(start)+i].hash, "main-chain hashes in height order")
	}
	vReach("ok")
}

// C17(6''): range queries that end at an arbitrary validated block, on the main chain or on a side branch:
// HeightToHashRange(start, end, max) == the hashes of end's own ancestor line at heights start..end.height (an error
// for unknown / unvalidated end, start < 0, start > end.height or more than max results); IntervalBlockHashes(end, k)
// == end's ancestors at heights k, 2k, ... <= end.height.  Main chain of 7, side branch of 3 forking at height 2.
//verif:opts reach=range,interval,err
func VH_hash_range_and_interval_queries() {
	main := vMkChain(nil, 7, 1)
	side := vMkChain(main[2], 3, 2)
	params := &chaincfg.Params{}
	b := &BlockChain{index: newBlockIndex(nil, params), bestChain: newChainView(main[len(main)-1])}
	for _, n := range append(append([]*blockNode{}, main...), side...) {
		n.status = statusDataStored | statusValid
		b.index.addNode(n)
	}
	var end *blockNode
	k := vNondetLen("end", 10)
	var endHash chainhash.Hash
	switch {
	case k < 7:
		end = main[k]
		endHash = end.hash
	case k < 10:
		end = side[k-7]
		endHash = end.hash
	default:
		endHash[0] = 0xee // unknown
	}
	unvalidated := end != nil && vNondetBool("endNotValidated")
	if unvalidated {
		end.status = statusDataStored
	}
	if vNondetBool("intervalQuery") {
		iv := 1 + vNondetLen("interval", 3)
		got, err := b.IntervalBlockHashes(&endHash, iv)
		if end == nil || unvalidated {
			vAssert(err != nil, "unknown or unvalidated end block is an error")
			vReach("err")
			return
		}
		vAssert(err == nil && len(got) == int(end.height)/iv, "one hash per full interval up to the end block")
		for i := range got {
			vAssert(got[i] == specAncestor(end, int32((i+1)*iv)).hash, "the end block's own ancestor at each multiple of the interval")
		}
		vReach("interval")
		return
	}
	start := vNondetI32("start")
	max := vNondetLen("max", 8)
	got, err := b.HeightToHashRange(start, &endHash, max)
	bad := end == nil || unvalidated || start < 0 || start > end.height || int(end.height-start+1) > max
	if bad {
		vAssert(err != nil, "invalid request is an error")
		vReach("err")
		return
	}
	vAssert(err == nil && len(got) == int(end.height-start+1), "heights start..end inclusive")
	for i := range got {
		vAssert(got[i] == specAncestor(end, start+int32(i)).hash, "hashes of the end block's own ancestor line, ascending")
	}
	vReach("range")
}
