//verif:module .
//verif:pkg peer
package peer

import (
	"time"

	"github.com/btcsuite/btcd/wire/v2"
)

// the connection is environment: the next inbound message is whatever the harness chose, outbound messages are
// recorded
var vPeerIO struct {
	next wire.Message
	sent []wire.Message
}

func vStubReadMessage(p *Peer, encoding wire.MessageEncoding, partial bool) (wire.Message, []byte, error) {
	return vPeerIO.next, nil, nil
}
func vStubWriteMessage(p *Peer, msg wire.Message, enc wire.MessageEncoding) error {
	vPeerIO.sent = append(vPeerIO.sent, msg)
	return nil
}

// C18(1) - the sequential clauses of the handshake only: the first message must be a version message (anything else
// is answered with a reject and ends the handshake); a version carrying a nonce this node sent itself is a
// self-connection and is refused unless self-connections are allowed; the negotiated protocol version is the lower of
// the two sides' versions, for all 2^32 x 2^32 pairs; a remote version below the minimum acceptable one is rejected
// as obsolete; services and witness support are taken from the remote's announcement.  Scheduling, data races,
// goroutine termination and FIFO delivery under concurrency are outside the encoder (see DESIGN 5).
//verif:opts reach=accepted,notversion,self,obsolete noverride=peer.go:Peer.readMessage:vStubReadMessage;peer.go:Peer.writeMessage:vStubWriteMessage
func VH_read_remote_version() {
	vPeerIO.sent = nil
	ours := vNondetU32("ourVersion")
	p := &Peer{protocolVersion: ours}
	p.cfg.AllowSelfConns = vNondetBool("allowSelfConns")
	isVersion := vNondetBool("firstIsVersion")
	theirs := vNondetI32("theirVersion")
	services := wire.ServiceFlag(vNondetU64("services"))
	nonce := vNondetU64("nonce")
	ownNonce := uint64(0x1122334455667788)
	sentNonces.Add(ownNonce)
	if isVersion {
		vPeerIO.next = &wire.MsgVersion{ProtocolVersion: theirs, Services: services, Nonce: nonce,
			Timestamp: time.Unix(1600000000, 0), LastBlock: vNondetI32("lastBlock"), UserAgent: "/x:1/"}
	} else {
		vPeerIO.next = wire.NewMsgVerAck()
	}
	err := p.readRemoteVersionMsg(false)
	switch {
	case !isVersion:
		vAssert(err != nil, "a first message that is not a version message ends the handshake")
		vAssert(len(vPeerIO.sent) == 1, "after exactly one reply")
		rej, ok := vPeerIO.sent[0].(*wire.MsgReject)
		vAssert(ok && rej.Code == wire.RejectMalformed, "which is a reject(malformed)")
		vAssert(!p.versionKnown, "no version is recorded")
		vReach("notversion")
	case nonce == ownNonce && !p.cfg.AllowSelfConns:
		vAssert(err != nil && !p.versionKnown, "a connection to ourselves is refused before anything is recorded")
		vReach("self")
	case uint32(theirs) < MinAcceptableProtocolVersion:
		vAssert(err != nil, "an obsolete remote version is refused")
		rej, ok := vPeerIO.sent[len(vPeerIO.sent)-1].(*wire.MsgReject)
		vAssert(ok && rej.Code == wire.RejectObsolete, "with a reject(obsolete)")
		vReach("obsolete")
	default:
		vAssert(err == nil && len(vPeerIO.sent) == 0, "an acceptable version message is accepted silently")
		want := ours
		if uint32(theirs) < want {
			want = uint32(theirs)
		}
		vAssert(p.protocolVersion == want && p.ProtocolVersion() == want, "negotiated version == the lower of the two")
		vAssert(p.advertisedProtoVer == uint32(theirs) && p.versionKnown, "the remote's announcement is recorded")
		vAssert(p.services == services, "services are the remote's")
		hasWitness := services&wire.SFNodeWitness == wire.SFNodeWitness
		vAssert(p.witnessEnabled == hasWitness && (p.wireEncoding == wire.WitnessEncoding) == hasWitness, "witness encoding iff the remote announces it")
		vAssert(p.lastBlock == p.startingHeight, "starting height recorded")
		vReach("accepted")
	}
}

var vPeerSeq struct {
	msgs []wire.Message
	errs []error
	pos  int
}

func vStubReadSeq(p *Peer, encoding wire.MessageEncoding, partial bool) (wire.Message, []byte, error) {
	i := vPeerSeq.pos
	vPeerSeq.pos++
	return vPeerSeq.msgs[i], nil, vPeerSeq.errs[i]
}

// C18(2) - sequential clause: between the version exchange and the verack, every sequence of up to 3 (thorough 4)
// messages drawn from {sendaddrv2, an unknown command, verack, ping (any other protocol message)}: the negotiation
// completes exactly when a verack arrives and only sendaddrv2 / unknown commands preceded it; any other protocol
// message before the verack aborts the handshake with ErrInvalidHandshake (and is not delivered to a listener);
// sendaddrv2 is honoured only from the protocol version that defines it; nothing after the verack is consumed.
//verif:opts reach=completed,aborted noverride=peer.go:Peer.readMessage:vStubReadSeq
func VH_wait_to_finish_negotiation() {
	n := 1 + vNondetLen("messages", 2+vTier())
	vPeerSeq.msgs, vPeerSeq.errs, vPeerSeq.pos = nil, nil, 0
	kinds := make([]int, n)
	for i := 0; i < n; i++ {
		kinds[i] = vNondetLen("kind", 3)
		switch kinds[i] {
		case 0:
			vPeerSeq.msgs, vPeerSeq.errs = append(vPeerSeq.msgs, wire.Message(wire.NewMsgSendAddrV2())), append(vPeerSeq.errs, nil)
		case 1:
			vPeerSeq.msgs, vPeerSeq.errs = append(vPeerSeq.msgs, wire.Message(nil)), append(vPeerSeq.errs, wire.ErrUnknownMessage)
		case 2:
			vPeerSeq.msgs, vPeerSeq.errs = append(vPeerSeq.msgs, wire.Message(wire.NewMsgVerAck())), append(vPeerSeq.errs, nil)
		default:
			vPeerSeq.msgs, vPeerSeq.errs = append(vPeerSeq.msgs, wire.Message(wire.NewMsgPing(7))), append(vPeerSeq.errs, nil)
		}
	}
	// the harness always ends the stream with a verack so that the loop terminates
	vPeerSeq.msgs, vPeerSeq.errs = append(vPeerSeq.msgs, wire.Message(wire.NewMsgVerAck())), append(vPeerSeq.errs, nil)
	pver := vNondetU32("negotiatedVersion")
	pings := 0
	p := &Peer{}
	p.cfg.Listeners.OnPing = func(*Peer, *wire.MsgPing) { pings++ }
	err := p.waitToFinishNegotiation(pver)
	// reference
	first := 0
	for first < n && kinds[first] != 2 && kinds[first] != 3 {
		first++
	}
	sawSendAddr := false
	for i := 0; i < first; i++ {
		sawSendAddr = sawSendAddr || kinds[i] == 0
	}
	vAssert(pings == 0, "no protocol message reaches the application before the handshake is complete")
	if first < n && kinds[first] == 3 {
		vAssert(err == wire.ErrInvalidHandshake && !p.verAckReceived, "any other message before the verack aborts the handshake")
		vAssert(vPeerSeq.pos == first+1, "nothing further is read")
		vReach("aborted")
		return
	}
	vAssert(err == nil && p.verAckReceived, "the handshake completes at the first verack")
	vAssert(vPeerSeq.pos == first+1, "nothing after the verack is consumed by the handshake")
	vAssert(p.sendAddrV2 == (sawSendAddr && pver >= wire.AddrV2Version), "sendaddrv2 counts only from the protocol version that defines it")
	vReach("completed")
}
