//verif:module .
//verif:pkg peer
package peer

import (
	"time"

	"github.com/btcsuite/btcd/chaincfg/v2"
	"github.com/btcsuite/btcd/wire/v2"
)

// scripted remote for a whole v1 negotiation: inbound reads come from vNeg.msgs in order, every outbound message is
// recorded together with the number of messages that had been read when it was written
var vNeg struct {
	msgs   []wire.Message
	pos    int
	sent   []wire.Message
	sentAt []int
}

func vStubNegRead(p *Peer, encoding wire.MessageEncoding, partial bool) (wire.Message, []byte, error) {
	i := vNeg.pos
	vNeg.pos++
	return vNeg.msgs[i], nil, nil
}
func vStubNegWrite(p *Peer, msg wire.Message, enc wire.MessageEncoding) error {
	vNeg.sent = append(vNeg.sent, msg)
	vNeg.sentAt = append(vNeg.sentAt, vNeg.pos)
	return nil
}

// C18(3) - negotiation order per direction, v1 transport, sequential clauses only: for both directions and every
// pair of protocol versions (ours, theirs) the local side writes exactly version, [sendaddrv2], verack in this order;
// sendaddrv2 is written iff the negotiated version (the lower of the two) is at least 70016; an inbound peer writes
// nothing before it has read the remote's version, an outbound peer writes its version before reading anything and
// its verack only after the remote's version; the version announced is the configured one and its nonce is
// remembered for self-connection detection; after the exchange VersionKnown and VerAckReceived hold.
//verif:opts reach=inbound,outbound,withaddrv2,withoutaddrv2 noverride=peer.go:Peer.readMessage:vStubNegRead;peer.go:Peer.writeMessage:vStubNegWrite
func VH_negotiate_protocol_order() {
	inbound := vNondetBool("inbound")
	ours := vNondetU32("ourVersion")
	theirs := vNondetI32("theirVersion")
	vAssume(uint32(theirs) >= MinAcceptableProtocolVersion)
	vAssume(ours != 0) // 0 selects the default (MaxProtocolVersion) in newPeerBase
	vNeg.msgs, vNeg.pos, vNeg.sent, vNeg.sentAt = nil, 0, nil, nil
	cfg := Config{ProtocolVersion: ours, ChainParams: &chaincfg.MainNetParams, UserAgentName: "h", UserAgentVersion: "1",
		Services: wire.SFNodeNetwork}
	p := newPeerBase(&cfg, inbound)
	p.na = wire.NetAddressV2FromBytes(time.Unix(1600000000, 0), 0, []byte{10, 0, 0, 1}, 8333)
	remote := &wire.MsgVersion{ProtocolVersion: theirs, Services: wire.SFNodeNetwork, Nonce: 0x8102030405060708, // never equals uint64(rand.Int63())
		Timestamp: time.Unix(1600000000, 0), UserAgent: "/x:1/"}
	vNeg.msgs = []wire.Message{remote, wire.NewMsgVerAck()}
	var err error
	if inbound {
		err = p.negotiateInboundProtocol()
	} else {
		err = p.negotiateOutboundProtocol()
	}
	vAssert(err == nil, "a well-formed exchange completes")
	want := ours
	if uint32(theirs) < want {
		want = uint32(theirs)
	}
	vAssert(p.ProtocolVersion() == want, "negotiated version == the lower of the two")
	vAssert(p.VersionKnown() && p.VerAckReceived(), "both handshake flags are set at the end")
	vAssert(vNeg.pos == 2, "exactly the version and the verack were consumed")
	withAddr := want >= wire.AddrV2Version
	n := 2
	if withAddr {
		n = 3
	}
	vAssert(len(vNeg.sent) == n, "version, [sendaddrv2], verack and nothing else are written")
	v, ok := vNeg.sent[0].(*wire.MsgVersion)
	vAssert(ok, "the first message written is our version")
	vAssert(uint32(v.ProtocolVersion) == ours, "announcing the configured protocol version")
	vAssert(sentNonces.Contains(v.Nonce), "its nonce is remembered for self-connection detection")
	if withAddr {
		_, ok = vNeg.sent[1].(*wire.MsgSendAddrV2)
		vAssert(ok, "sendaddrv2 comes second")
		vReach("withaddrv2")
	} else {
		vReach("withoutaddrv2")
	}
	_, ok = vNeg.sent[n-1].(*wire.MsgVerAck)
	vAssert(ok, "the verack is written last")
	if inbound {
		vAssert(vNeg.sentAt[0] == 1, "an inbound peer writes nothing before the remote's version has been read")
		vReach("inbound")
	} else {
		vAssert(vNeg.sentAt[0] == 0, "an outbound peer sends its version first")
		vReach("outbound")
	}
	vAssert(vNeg.sentAt[n-1] == 1, "our verack follows the remote's version and precedes the remote's verack")
}

// C18(4) - stall deadlines, the sequential bookkeeping only: a sent command registers a response deadline for
// exactly the commands that answer it (version -> verack; mempool, getblocks -> inv; getdata -> block, merkleblock,
// tx, notfound; getheaders -> headers) and for nothing else; no other command - ping in particular - registers any.
//verif:opts reach=version,inv,getdata,headers,none
func VH_stall_deadlines_per_command() {
	cmds := []string{wire.CmdVersion, wire.CmdMemPool, wire.CmdGetBlocks, wire.CmdGetData, wire.CmdGetHeaders,
		wire.CmdPing, wire.CmdTx, wire.CmdInv, wire.CmdVerAck, wire.CmdAddr}
	k := vNondetLen("cmd", len(cmds)-1)
	pending := make(map[string]time.Time)
	p := &Peer{}
	p.maybeAddDeadline(pending, cmds[k])
	has := func(c string) bool { _, ok := pending[c]; return ok }
	switch cmds[k] {
	case wire.CmdVersion:
		vAssert(len(pending) == 1 && has(wire.CmdVerAck), "version expects a verack")
		vReach("version")
	case wire.CmdMemPool, wire.CmdGetBlocks:
		vAssert(len(pending) == 1 && has(wire.CmdInv), "mempool / getblocks expect an inv")
		vReach("inv")
	case wire.CmdGetData:
		vAssert(len(pending) == 4 && has(wire.CmdBlock) && has(wire.CmdMerkleBlock) && has(wire.CmdTx) && has(wire.CmdNotFound),
			"getdata expects block, merkleblock, tx or notfound")
		vReach("getdata")
	case wire.CmdGetHeaders:
		vAssert(len(pending) == 1 && has(wire.CmdHeaders), "getheaders expects headers")
		vReach("headers")
	default:
		vAssert(len(pending) == 0, "no other command registers a deadline")
		vReach("none")
	}
}

var vQueued []wire.Message

func vStubQueueMessage(p *Peer, msg wire.Message, doneChan chan<- struct{}) { vQueued = append(vQueued, msg) }

// C18(5) - BIP31 keep-alive bookkeeping, sequential: a ping is answered with exactly one pong carrying the ping's
// nonce iff the negotiated version is above 60000 (BIP0031Version); a pong clears the outstanding ping (and measures
// the round trip) only when its nonce equals the (non-zero) outstanding one and the version is above 60000 - a
// stale, unsolicited or zero-nonce pong changes nothing.
//verif:opts reach=answered,silent,matched,ignored noverride=peer.go:Peer.QueueMessage:vStubQueueMessage
func VH_ping_pong_nonce_bookkeeping() {
	vQueued = nil
	pver := vNondetU32("negotiatedVersion")
	p := &Peer{protocolVersion: pver}
	ping := vNondetU64("pingNonce")
	p.handlePingMsg(wire.NewMsgPing(ping))
	if pver > wire.BIP0031Version {
		vAssert(len(vQueued) == 1, "exactly one reply")
		pong, ok := vQueued[0].(*wire.MsgPong)
		vAssert(ok && pong.Nonce == ping, "a pong with the ping's nonce")
		vReach("answered")
	} else {
		vAssert(len(vQueued) == 0, "old peers get no pong")
		vReach("silent")
	}
	outstanding := vNondetU64("outstanding")
	got := vNondetU64("pongNonce")
	p.lastPingNonce = outstanding
	p.lastPingMicros = -1
	p.lastPingTime = time.Unix(1600000000, 0)
	p.handlePongMsg(wire.NewMsgPong(got))
	if pver > wire.BIP0031Version && outstanding != 0 && got == outstanding {
		vAssert(p.lastPingNonce == 0, "the matching pong clears the outstanding ping")
		vReach("matched")
	} else {
		vAssert(p.lastPingNonce == outstanding && p.lastPingMicros == -1, "any other pong changes nothing")
		vReach("ignored")
	}
}
