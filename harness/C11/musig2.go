//verif:module btcec
//verif:pkg schnorr/musig2
package musig2

import "bytes"

var vOrderN = []byte{0xFF, 0xFF, 0xFF, 0xFF, 0xFF, 0xFF, 0xFF, 0xFF, 0xFF, 0xFF, 0xFF, 0xFF, 0xFF, 0xFF, 0xFF, 0xFE,
	0xBA, 0xAE, 0xDC, 0xE6, 0xAF, 0x48, 0xA0, 0x3B, 0xBF, 0xD2, 0x5E, 0x8C, 0xD0, 0x36, 0x41, 0x41}

func specLess32(a, b []byte) bool {
	lt, eq := false, true
	for i := 0; i < 32; i++ {
		lt = lt || (eq && a[i] < b[i])
		eq = eq && a[i] == b[i]
	}
	return lt
}

// C11(4): BIP327 partial signatures: Decode accepts exactly the 32-byte big-endian encodings of s < n (shorter
// input is an error), and an accepted value re-encodes to the same bytes (the parser admits no non-canonical
// encoding of a scalar).
//verif:opts reach=accept,reject,short
func VH_musig2_partial_sig_codec() {
	n := []int{0, 31, 32, 33}[vNondetLen("leni", 3)]
	raw := vNondetBytes("s", n)
	var p PartialSignature
	err := p.Decode(bytes.NewReader(raw))
	if n < 32 {
		vAssert(err != nil, "fewer than 32 bytes cannot be decoded")
		vReach("short")
		return
	}
	want := specLess32(raw[:32], vOrderN)
	vAssert((err == nil) == want, "accepted iff the value is below the group order")
	if err == nil {
		var out bytes.Buffer
		vAssert(p.Encode(&out) == nil, "encodes")
		vAssert(bytes.Equal(out.Bytes(), raw[:32]), "decode then encode is the identity on accepted encodings")
		vReach("accept")
	} else {
		vReach("reject")
	}
}
