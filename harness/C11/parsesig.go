//verif:module btcec
//verif:pkg ecdsa
package ecdsa

// group order n, big endian
var vOrderN = []byte{0xFF, 0xFF, 0xFF, 0xFF, 0xFF, 0xFF, 0xFF, 0xFF, 0xFF, 0xFF, 0xFF, 0xFF, 0xFF, 0xFF, 0xFF, 0xFE,
	0xBA, 0xAE, 0xDC, 0xE6, 0xAF, 0x48, 0xA0, 0x3B, 0xBF, 0xD2, 0x5E, 0x8C, 0xD0, 0x36, 0x41, 0x41}

// big-endian integer b in [1, n-1]?  Written without early exits (flags only) so that the symbolic
// execution of the specification does not fork per byte.
func specInRange(b []byte) bool {
	if len(b) > 33 {
		// only the low 33 bytes may be non-zero
		hi := b[:len(b)-33]
		for _, x := range hi {
			if x != 0 {
				return false
			}
		}
		b = b[len(b)-33:]
	}
	var v [33]byte
	copy(v[33-len(b):], b)
	nonzero := false
	lt, eq := false, true // v <lex (0 || n)
	for i := 0; i < 33; i++ {
		var ni byte
		if i > 0 {
			ni = vOrderN[i-1]
		}
		nonzero = nonzero || v[i] != 0
		lt = lt || (eq && v[i] < ni)
		eq = eq && v[i] == ni
	}
	return nonzero && lt
}

// BIP66 IsValidSignatureEncoding without the trailing hash-type byte
func specStrictDER(sig []byte) bool {
	if len(sig) < 8 || len(sig) > 72 {
		return false
	}
	if sig[0] != 0x30 {
		return false
	}
	if int(sig[1]) != len(sig)-2 {
		return false
	}
	lenR := int(sig[3])
	if 5+lenR >= len(sig) {
		return false
	}
	lenS := int(sig[5+lenR])
	if lenR+lenS+6 != len(sig) {
		return false
	}
	if sig[2] != 0x02 {
		return false
	}
	if lenR == 0 {
		return false
	}
	if sig[4]&0x80 != 0 {
		return false
	}
	if lenR > 1 && sig[4] == 0 && sig[5]&0x80 == 0 {
		return false
	}
	if sig[lenR+4] != 0x02 {
		return false
	}
	if lenS == 0 {
		return false
	}
	if sig[lenR+6]&0x80 != 0 {
		return false
	}
	if lenS > 1 && sig[lenR+6] == 0 && sig[lenR+7]&0x80 == 0 {
		return false
	}
	return true
}

// C11(1): ParseDERSignature accepts exactly the strictly DER encoded (BIP66) signatures with 1 <= r,s < n;
// never panics on any input of the stated lengths.
//verif:opts reach=accept,reject
func VH_parse_der_signature() {
	lens := []int{0, 7, 8, 9, 10, 12, 70, 71}
	if vTier() == 1 {
		lens = []int{0, 1, 7, 8, 9, 10, 11, 12, 16, 40, 70, 71, 72, 73}
	}
	n := lens[vNondetLen("leni", len(lens)-1)]
	sig := vNondetBytes("sig", n)
	if n >= 40 {
		// long inputs: the declared body length is the whole input (the interplay of a shorter declared
		// length with trailing bytes is explored exhaustively on the short inputs) and, in the quick tier,
		// R takes 32 or 33 bytes (where the range checks against the group order live)
		vAssume(int(sig[1]) == n-2)
		if vTier() == 0 {
			vAssume(sig[3] == 32 || sig[3] == 33 || sig[3] == 1 || sig[3] == 31)
		}
	}
	_, err := ParseDERSignature(sig)
	// the DER structure proper is the prefix of length sig[1]+2
	want := false
	exact := false
	if n >= 8 && n <= 72 && int(sig[1])+2 <= n {
		body := sig[:int(sig[1])+2]
		exact = len(body) == n
		want = specStrictDER(body)
		if want {
			lenR := int(body[3])
			lenS := int(body[5+lenR])
			want = specInRange(body[4:4+lenR]) && specInRange(body[6+lenR:6+lenR+lenS])
		}
	}
	vAssert((err == nil) == want, "accept iff the DER structure is strictly encoded (BIP66) with 1 <= r,s < n")
	if err == nil {
		vAssert(exact, "no trailing bytes after the DER structure")
		vReach("accept")
	} else {
		vReach("reject")
	}
}

// C11(1): the lax parser (ParseSignature) never panics and accepts every strictly encoded signature
//verif:opts reach=accept,reject
func VH_parse_lax_signature() {
	lens := []int{0, 7, 8, 9, 11}
	if vTier() == 1 {
		lens = []int{0, 1, 7, 8, 9, 10, 11, 12, 13, 71, 72}
	}
	n := lens[vNondetLen("leni", len(lens)-1)]
	sig := vNondetBytes("sig", n)
	if n >= 40 {
		// long inputs: one body spanning the whole input with R of 32 or 33 bytes (the general interplay of the
		// two declared lengths is explored exhaustively on the short inputs)
		vAssume(int(sig[1]) == n-2 && (sig[3] == 32 || sig[3] == 33))
	}
	_, err := ParseSignature(sig)
	_, errDer := ParseDERSignature(sig)
	vAssert(errDer != nil || err == nil, "whatever the strict parser accepts the lax parser accepts")
	if err == nil {
		vReach("accept")
	} else {
		vReach("reject")
	}
}
