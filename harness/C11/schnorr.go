//verif:module btcec
//verif:pkg schnorr
package schnorr

var vFieldP = []byte{0xFF, 0xFF, 0xFF, 0xFF, 0xFF, 0xFF, 0xFF, 0xFF, 0xFF, 0xFF, 0xFF, 0xFF, 0xFF, 0xFF, 0xFF, 0xFF,
	0xFF, 0xFF, 0xFF, 0xFF, 0xFF, 0xFF, 0xFF, 0xFF, 0xFF, 0xFF, 0xFF, 0xFE, 0xFF, 0xFF, 0xFC, 0x2F}
var vOrderN = []byte{0xFF, 0xFF, 0xFF, 0xFF, 0xFF, 0xFF, 0xFF, 0xFF, 0xFF, 0xFF, 0xFF, 0xFF, 0xFF, 0xFF, 0xFF, 0xFE,
	0xBA, 0xAE, 0xDC, 0xE6, 0xAF, 0x48, 0xA0, 0x3B, 0xBF, 0xD2, 0x5E, 0x8C, 0xD0, 0x36, 0x41, 0x41}

var vGenX = []byte{0x79, 0xbe, 0x66, 0x7e, 0xf9, 0xdc, 0xbb, 0xac, 0x55, 0xa0, 0x62, 0x95, 0xce, 0x87, 0x0b, 0x07,
	0x02, 0x9b, 0xfc, 0xdb, 0x2d, 0xce, 0x28, 0xd9, 0x59, 0xf2, 0x81, 0x5b, 0x16, 0xf8, 0x17, 0x98}

// 32-byte big-endian a < b, flags only
func specLess(a, b []byte) bool {
	lt, eq := false, true
	for i := 0; i < 32; i++ {
		lt = lt || (eq && a[i] < b[i])
		eq = eq && a[i] == b[i]
	}
	return lt
}

// C11(2): BIP340 signature parsing accepts exactly 64-byte strings with r < p and s < n
//verif:opts reach=accept,reject
func VH_schnorr_parse_signature() {
	n := []int{0, 63, 64, 65}[vNondetLen("leni", 3)]
	sig := vNondetBytes("sig", n)
	_, err := ParseSignature(sig)
	want := n == 64 && specLess(sig[:32], vFieldP) && specLess(sig[32:], vOrderN)
	vAssert((err == nil) == want, "accepted iff 64 bytes, r < p and s < n")
	if err == nil {
		vReach("accept")
	} else {
		vReach("reject")
	}
}

// C11(2): x-only public keys: anything but 32 bytes is rejected; 32 bytes are parsed as the even-y point
//verif:opts reach=end
func VH_schnorr_parse_pubkey_length() {
	n := []int{0, 31, 33, 64}[vNondetLen("leni", 3)]
	k := vNondetBytes("key", n)
	if n >= 32 && vNondetBool("validPrefix") {
		// a string that STARTS with a valid x-only key (the generator's x coordinate) and continues
		copy(k, vGenX)
	}
	_, err := ParsePubKey(k)
	vAssert(err != nil, "a key that is not 32 bytes long is rejected")
	_, err = ParsePubKey(nil)
	vAssert(err != nil, "nil is rejected")
	vReach("end")
}
