//verif:module .
//verif:pkg database/ffldb
package ffldb

import "github.com/btcsuite/btcd/database"

// C05(2): block location and write-cursor rows: round trip for every value, documented little-endian layout,
// a row whose checksum does not match is reported as corruption (CRC-32C uninterpreted).
//verif:opts reach=end
func VH_block_location_roundtrip() {
	loc := blockLocation{blockFileNum: vNondetU32("file"), fileOffset: vNondetU32("offset"), blockLen: vNondetU32("len")}
	ser := serializeBlockLoc(loc)
	vAssert(len(ser) == 12, "12-byte record")
	vAssert(uint32(ser[0])|uint32(ser[1])<<8|uint32(ser[2])<<16|uint32(ser[3])<<24 == loc.blockFileNum, "file number little endian at 0")
	vAssert(uint32(ser[4])|uint32(ser[5])<<8|uint32(ser[6])<<16|uint32(ser[7])<<24 == loc.fileOffset, "offset little endian at 4")
	vAssert(uint32(ser[8])|uint32(ser[9])<<8|uint32(ser[10])<<16|uint32(ser[11])<<24 == loc.blockLen, "length little endian at 8")
	vAssert(deserializeBlockLoc(ser) == loc, "round trip")
	vReach("end")
}

// C05(2'): the write-cursor row round trips for every (file, offset); a row whose CRC-32C does not match, or of the
// wrong length, is reported as corruption rather than misread.
//verif:opts reach=ok,corrupt
func VH_write_row_roundtrip() {
	f, o := vNondetU32("file"), vNondetU32("offset")
	row := serializeWriteRow(f, o)
	gf, goff, err := deserializeWriteRow(row)
	vAssert(err == nil && gf == f && goff == o, "write cursor round trips")
	// an arbitrary 12-byte row: accepted only if its checksum field equals the CRC of the first 8 bytes
	raw := vNondetBytes("row", 12)
	_, _, err2 := deserializeWriteRow(raw)
	if err2 != nil {
		de, ok := err2.(database.Error)
		vAssert(ok && de.ErrorCode == database.ErrCorruption, "a checksum mismatch is reported as corruption")
		vReach("corrupt")
	} else {
		vReach("ok")
	}
}
