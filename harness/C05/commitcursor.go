//verif:module .
//verif:pkg database/ffldb
package ffldb

import (
	"github.com/btcsuite/btcd/chainhash/v2"
	"github.com/btcsuite/btcd/database/internal/treap"
)

// the flat files are environment: writing a block advances the write cursor - staying in the current file or rolling
// over to a later one, by an arbitrary amount - and reports where the block went
var vWP struct {
	locs      []blockLocation
	committed int
}

func vStubWPWriteBlock(s *blockStore, rawBlock []byte) (blockLocation, error) {
	wc := s.writeCursor
	if vNondetBool("rollover") {
		wc.curFileNum += 1 + uint32(vNondetLen("skip", 1))
		wc.curOffset = 0
	}
	loc := blockLocation{blockFileNum: wc.curFileNum, fileOffset: wc.curOffset, blockLen: uint32(len(rawBlock)) + 12}
	wc.curOffset += loc.blockLen
	vWP.locs = append(vWP.locs, loc)
	return loc, nil
}
func vStubWPCommit(c *dbCache, tx *transaction) error {
	vWP.committed++
	return nil
}

// C05(10): what a committing transaction records about its block writes: with 1..2 (thorough 3) pending blocks,
// an arbitrary starting write cursor and an arbitrary roll-over to a later block file before any of the writes, the
// metadata written in the same commit holds (a) for every block an index row that decodes to exactly the location
// the block was written at and (b) a write-cursor row that decodes to the position AFTER the last write - current
// file number and offset, not the pre-commit ones - which is what reconcileDB compares the files with at the next
// open (a stale row makes it truncate committed blocks away); the cache commit is requested exactly once.
//verif:opts reach=rolled,samefile noverride=blockio.go:blockStore.writeBlock:vStubWPWriteBlock;dbcache.go:dbCache.commitTx:vStubWPCommit
func VH_commit_records_block_locations_and_write_cursor() {
	vWP.locs, vWP.committed = nil, 0
	startFile, startOff := vNondetU32("startFile"), vNondetU32("startOffset")
	vAssume(startFile < 1<<30 && startOff < 1<<30)
	wc := &writeCursor{curFileNum: startFile, curOffset: startOff}
	d := &db{store: &blockStore{writeCursor: wc}, cache: &dbCache{}}
	tx := &transaction{writable: true, db: d, pendingKeys: treap.NewMutable(), pendingRemove: treap.NewMutable()}
	tx.metaBucket = &bucket{tx: tx, id: metadataBucketID}
	tx.blockIdxBucket = &bucket{tx: tx, id: blockIdxBucketID}
	n := 1 + vNondetLen("blocks", 1+vTier())
	hashes := make([]chainhash.Hash, n)
	for i := 0; i < n; i++ {
		hashes[i][0] = byte(i + 1)
		tx.pendingBlockData = append(tx.pendingBlockData, pendingBlock{hash: &hashes[i], bytes: make([]byte, 80+i)})
	}
	err := tx.writePendingAndCommit()
	vAssert(err == nil && vWP.committed == 1, "the commit goes through to the cache exactly once")
	vAssert(len(vWP.locs) == n, "every pending block was written once")
	for i := 0; i < n; i++ {
		row := tx.pendingKeys.Get(bucketizedKey(blockIdxBucketID, hashes[i][:]))
		vAssert(len(row) == blockLocSize, "a block index row is recorded for every block")
		vAssert(deserializeBlockLoc(row) == vWP.locs[i], "and decodes to the location the block was written at")
	}
	row := tx.pendingKeys.Get(bucketizedKey(metadataBucketID, writeLocKeyName))
	vAssert(row != nil, "the write-cursor row is part of the same commit")
	f, o, derr := deserializeWriteRow(row)
	vAssert(derr == nil, "it carries a valid checksum")
	vAssert(f == wc.curFileNum && o == wc.curOffset, "it names the file and offset AFTER the last block written")
	last := vWP.locs[n-1]
	vAssert(f == last.blockFileNum && o == last.fileOffset+last.blockLen, "i.e. the end of the last block")
	if f != startFile {
		vReach("rolled")
	} else {
		vReach("samefile")
	}
}
