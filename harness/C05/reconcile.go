//verif:module .
//verif:pkg database/ffldb
package ffldb

import (
	"github.com/btcsuite/btcd/database"
)

// the metadata read on open: a read-only transaction whose metadata bucket holds the stored write-cursor row
type vBucketIface = database.Bucket // (embedding database.Bucket directly would shadow its Bucket method)

type vMetaBucket struct {
	vBucketIface
	row []byte
}

func (b *vMetaBucket) Get(key []byte) []byte { return b.row }

type vMetaTx struct {
	database.Tx
	b *vMetaBucket
}

func (t *vMetaTx) Metadata() database.Bucket { return t.b }

var vMetaRow []byte

func vStubView(d *db, fn func(database.Tx) error) error { return fn(&vMetaTx{b: &vMetaBucket{row: vMetaRow}}) }

// a block file that records what is done to it
type vFile struct {
	num       uint32
	truncated []int64
	closed    bool
	synced    bool
}

func (f *vFile) Close() error                              { f.closed = true; return nil }
func (f *vFile) WriteAt(p []byte, off int64) (int, error)  { return len(p), nil }
func (f *vFile) ReadAt(p []byte, off int64) (int, error)   { return len(p), nil }
func (f *vFile) Truncate(size int64) error                 { f.truncated = append(f.truncated, size); return nil }
func (f *vFile) Sync() error                               { f.synced = true; return nil }

// C05(6): prefix durability on open: for every stored write cursor (file <= 3, any offset) and every position the
// block files on disk actually end at, reconcileDB + the real handleRollback (file operations mocked through the
// store's function fields) either leave everything alone (equal), report corruption (disk behind the metadata), or
// roll the disk back to exactly the stored cursor: every newer file deleted, newest first, the cursor's file
// truncated to the cursor's offset and synced, and the write cursor repositioned to the stored one.
//verif:opts reach=equal,behind,rollback noverride=db.go:db.View:vStubView
func VH_reconcile_rolls_back_to_metadata() {
	mf, mo := vNondetU32("metaFile"), vNondetU32("metaOffset")
	df, do := vNondetU32("diskFile"), vNondetU32("diskOffset")
	vAssume(mf <= 3 && df <= 3)
	vMetaRow = serializeWriteRow(mf, mo)
	var deleted []uint32
	var opened []*vFile
	cur := &vFile{num: df}
	st := &blockStore{writeCursor: &writeCursor{curFile: &lockableFile{file: cur}, curFileNum: df, curOffset: do}}
	st.deleteFileFunc = func(n uint32) error { deleted = append(deleted, n); return nil }
	st.openWriteFileFunc = func(n uint32) (filer, error) {
		f := &vFile{num: n}
		opened = append(opened, f)
		return f, nil
	}
	pdb := &db{store: st}
	got, err := reconcileDB(pdb, false)
	wc := st.writeCursor
	switch {
	case df == mf && do == mo:
		vAssert(err == nil && got != nil, "consistent store opens")
		vAssert(len(deleted) == 0 && len(opened) == 0 && len(cur.truncated) == 0 && !cur.closed, "nothing is touched")
		vAssert(wc.curFileNum == df && wc.curOffset == do, "write cursor unchanged")
		vReach("equal")
	case df < mf || (df == mf && do < mo):
		vAssert(err != nil && got == nil, "block data missing below the stored cursor is corruption")
		vAssert(len(deleted) == 0 && len(cur.truncated) == 0, "nothing is modified when corruption is reported")
		vReach("behind")
	default:
		vAssert(err == nil && got != nil, "an unclean shutdown is repaired")
		vAssert(wc.curFileNum == mf && wc.curOffset == mo, "write cursor repositioned to the stored one")
		vAssert(len(deleted) == int(df-mf), "exactly the files newer than the stored cursor's file are deleted")
		for i, n := range deleted {
			vAssert(n == df-uint32(i), "newest first")
		}
		// the file at the stored cursor: the already open one when no file was deleted, else a freshly opened one
		target := cur
		if df > mf {
			vAssert(cur.closed && len(cur.truncated) == 0, "the newer write file is closed, not truncated")
			vAssert(len(opened) == 1 && opened[0].num == mf, "the stored cursor's file is opened for writing")
			target = opened[0]
		} else {
			vAssert(len(opened) == 0, "no other file is opened")
		}
		vAssert(len(target.truncated) == 1 && target.truncated[0] == int64(mo), "truncated to exactly the stored offset")
		vAssert(target.synced, "and synced")
		vReach("rollback")
	}
}
