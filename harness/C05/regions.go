//verif:module .
//verif:pkg database/ffldb
package ffldb

import (
	"github.com/btcsuite/btcd/chainhash/v2"
	"github.com/btcsuite/btcd/database"
	"github.com/btcsuite/btcd/database/internal/treap"
)

// a block file whose content is a fixed function of (file number, absolute offset)
type vDataFile struct{ num uint32 }

func vFileByte(num uint32, off int64) byte { return byte(int64(num)*101 + off*7 + 3) }

func (f *vDataFile) Close() error                             { return nil }
func (f *vDataFile) WriteAt(p []byte, off int64) (int, error) { return len(p), nil }
func (f *vDataFile) ReadAt(p []byte, off int64) (int, error) {
	for i := range p {
		p[i] = vFileByte(f.num, off+int64(i))
	}
	return len(p), nil
}
func (f *vDataFile) Truncate(size int64) error { return nil }
func (f *vDataFile) Sync() error               { return nil }

// C05(7): byte-faithful bulk region fetch: 2 (thorough 3) stored blocks at arbitrary locations (file 0/1, arbitrary
// offsets and lengths) and 2 (3) requested regions naming arbitrary blocks in arbitrary request order with
// arbitrary offsets / lengths: FetchBlockRegions returns, for request i, exactly the bytes of block(i) at
// [offset, offset+len) (file position fileOffset + 8 + offset), or ErrBlockRegionInvalid iff some region exceeds its
// block - whatever order the reads are sorted into.
//verif:opts reach=ok,invalid
func VH_fetch_block_regions() {
	nBlocks := 2 + vTier()
	tx := &transaction{writable: true, pendingKeys: treap.NewMutable(), pendingRemove: treap.NewMutable()}
	tx.blockIdxBucket = &bucket{tx: tx, id: blockIdxBucketID}
	st := &blockStore{writeCursor: &writeCursor{curFile: &lockableFile{}, curFileNum: 9},
		openBlockFiles: make(map[uint32]*lockableFile)}
	st.openFileFunc = func(n uint32) (*lockableFile, error) { return &lockableFile{file: &vDataFile{num: n}}, nil }
	tx.db = &db{store: st}
	hashes := make([]chainhash.Hash, nBlocks)
	locs := make([]blockLocation, nBlocks)
	for i := range hashes {
		hashes[i][0] = byte(i + 1)
		locs[i] = blockLocation{blockFileNum: uint32(vNondetLen("file", 1)), fileOffset: uint32(vNondetU8("fileOffset")),
			blockLen: uint32(vNondetU8("blockLen"))}
		tx.putKey(bucketizedKey(blockIdxBucketID, hashes[i][:]), serializeBlockLoc(locs[i]))
	}
	nReq := 2 + vTier()
	regions := make([]database.BlockRegion, nReq)
	which := make([]int, nReq)
	anyInvalid := false
	for i := range regions {
		which[i] = vNondetLen("block", nBlocks-1)
		off, ln := uint32(vNondetU8("offset")), uint32(vNondetLen("len", 3))
		regions[i] = database.BlockRegion{Hash: &hashes[which[i]], Offset: off, Len: ln}
		if off+ln > locs[which[i]].blockLen {
			anyInvalid = true
		}
	}
	got, err := tx.FetchBlockRegions(regions)
	if anyInvalid {
		vAssert(err != nil && got == nil, "a region beyond its block's length is refused")
		vReach("invalid")
		return
	}
	vAssert(err == nil && len(got) == nReq, "one result per request")
	for i := range regions {
		l := locs[which[i]]
		vAssert(len(got[i]) == int(regions[i].Len), "result length == requested length")
		for j := range got[i] {
			want := vFileByte(l.blockFileNum, int64(l.fileOffset)+8+int64(regions[i].Offset)+int64(j))
			vAssert(got[i][j] == want, "request i gets exactly the stored bytes of its own block and region")
		}
	}
	vReach("ok")
}
