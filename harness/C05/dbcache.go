//verif:module .
//verif:pkg database/ffldb
package ffldb

import "github.com/btcsuite/btcd/database/internal/treap"

// leveldb is environment: the stub applies the committed treaps to an array-backed key/value model exactly as the
// real commitTreaps does inside one atomic leveldb transaction (puts first, then deletes).
var vLdbHas [4]bool
var vLdbVal [4]byte

func vStubCommitTreaps(c *dbCache, pendingKeys, pendingRemove TreapForEacher) error {
	pendingKeys.ForEach(func(k, v []byte) bool {
		vLdbHas[k[0]], vLdbVal[k[0]] = true, v[0]
		return true
	})
	pendingRemove.ForEach(func(k, v []byte) bool {
		vLdbHas[k[0]] = false
		return true
	})
	return nil
}
func vStubSyncBlocks(s *blockStore) error { return nil }

// when the cache decides to flush depends on the clock and on memory use: arbitrary
func vStubNeedsFlush(c *dbCache, tx *transaction) bool { return vNondetBool("needsFlush") }

// what a reader opening a snapshot now sees for key k: removals, then cached puts, then the database
// (the order of dbCacheSnapshot.Get / Has)
func vCacheView(c *dbCache, k byte) (bool, byte) {
	key := []byte{k}
	if c.cachedRemove.Has(key) {
		return false, 0
	}
	if v := c.cachedKeys.Get(key); v != nil {
		return true, v[0]
	}
	return vLdbHas[k], vLdbVal[k]
}

// C05(5): committed metadata is read back exactly, whatever the flush schedule: a sequence of 2 (thorough 3)
// committed transactions over 2 keys, each putting / deleting / leaving each key (through the real putKey /
// deleteKey), each commit either going to the cache or triggering a flush (arbitrary), with an optional explicit
// flush in between: after every step a reader sees exactly the map obtained by applying the transactions in order.
//verif:opts reach=end noverride=dbcache.go:dbCache.commitTreaps:vStubCommitTreaps;blockio.go:blockStore.syncBlocks:vStubSyncBlocks;dbcache.go:dbCache.needsFlush:vStubNeedsFlush
func VH_dbcache_commit_matches_map_model() {
	nKeys := 2 // two keys in both tiers; the thorough tier adds a third transaction
	var has [4]bool
	var val [4]byte
	for k := 0; k < 4; k++ {
		vLdbHas[k], vLdbVal[k] = false, 0
	}
	// arbitrary initial database content
	for k := 1; k <= nKeys; k++ {
		if vNondetBool("initHas") {
			v := vNondetU8("initVal")
			vLdbHas[k], vLdbVal[k], has[k], val[k] = true, v, true, v
		}
	}
	c := &dbCache{cachedKeys: treap.NewImmutable(), cachedRemove: treap.NewImmutable()}
	for step := 0; step < 2+vTier(); step++ {
		tx := &transaction{writable: true, pendingKeys: treap.NewMutable(), pendingRemove: treap.NewMutable()}
		for k := 1; k <= nKeys; k++ {
			switch vNondetLen("action", 2) {
			case 1:
				v := vNondetU8("putVal")
				tx.putKey([]byte{byte(k)}, []byte{v})
				has[k], val[k] = true, v
			case 2:
				tx.deleteKey([]byte{byte(k)}, false)
				has[k] = false
			}
		}
		err := c.commitTx(tx)
		vAssert(err == nil, "commit succeeds")
		if vNondetBool("explicitFlush") {
			vAssert(c.flush() == nil, "flush succeeds")
			vAssert(c.cachedKeys.Len() == 0 && c.cachedRemove.Len() == 0, "a flush empties the cache")
		}
		for k := 1; k <= nKeys; k++ {
			gh, gv := vCacheView(c, byte(k))
			vAssert(gh == has[k], "key presence after commit matches the map model")
			vAssert(!gh || gv == val[k], "value after commit matches the map model")
		}
	}
	// closing the database flushes: the database alone then holds the model
	vAssert(c.flush() == nil, "final flush")
	for k := 1; k <= nKeys; k++ {
		vAssert(vLdbHas[k] == has[k] && (!has[k] || vLdbVal[k] == val[k]), "after the final flush the database itself equals the map model")
	}
	vReach("end")
}
