//verif:module .
//verif:pkg database/ffldb
package ffldb

import (
	"github.com/btcsuite/btcd/database/internal/treap"
	"github.com/syndtr/goleveldb/leveldb/util"
)

// C05(9): inside a read-write transaction a bucket cursor shows the bucket as ONE ordered map - the committed
// snapshot overlaid with the transaction's own puts and deletes: over 2 (thorough 3) keys, each arbitrarily
// committed or not and then arbitrarily {left alone, overwritten / inserted, deleted, deleted and re-inserted} by
// the transaction through the real putKey / deleteKey, walking First/Next and Last/Prev and Seek(k)/Next yields
// every live key exactly once, in key order, with the transaction's value where it wrote one.  The committed side is
// served through the iterator.Iterator interface leveldb implements, backed by a treap (as in C05(8)).
//verif:opts reach=end
func VH_tx_cursor_overlays_pending_writes() {
	n := 2 + vTier()
	id := [4]byte{0, 0, 0, 7}
	dbT := treap.NewImmutable()
	tx := &transaction{writable: true, pendingKeys: treap.NewMutable(), pendingRemove: treap.NewMutable()}
	has := make([]bool, n)
	val := make([]byte, n)
	for i := 0; i < n; i++ {
		k := bucketizedKey(id, []byte{byte(10 * (i + 1))})
		if vNondetBool("committed") {
			v := vNondetU8("dbVal")
			dbT = dbT.Put(treap.KVPair{Key: k, Value: []byte{v}})
			has[i], val[i] = true, v
		}
		switch vNondetLen("txAction", 3) {
		case 1:
			v := vNondetU8("putVal")
			tx.putKey(k, []byte{v})
			has[i], val[i] = true, v
		case 2:
			tx.deleteKey(k, true)
			has[i] = false
		case 3:
			tx.deleteKey(k, true)
			v := vNondetU8("rePutVal")
			tx.putKey(k, []byte{v})
			has[i], val[i] = true, v
		}
	}
	rng := &util.Range{Start: []byte{0, 0, 0, 7}, Limit: []byte{0, 0, 0, 8}} // == util.BytesPrefix(id[:])
	c := &cursor{bucket: &bucket{tx: tx, id: id},
		dbIter:      &ldbCacheIter{Iterator: dbT.Iterator(rng.Start, rng.Limit)},
		pendingIter: newLdbTreapIter(tx, rng)}
	// ascending
	i := 0
	for ok := c.First(); ok; ok = c.Next() {
		for i < n && !has[i] {
			i++
		}
		vAssert(i < n, "ascending walk yields no key twice and no dead key")
		k, v := c.Key(), c.Value()
		vAssert(len(k) == 1 && k[0] == byte(10*(i+1)) && len(v) == 1 && v[0] == val[i], "ascending walk yields the overlaid map in key order")
		i++
	}
	for i < n && !has[i] {
		i++
	}
	vAssert(i == n, "ascending walk yields every live key")
	// descending
	i = n - 1
	for ok := c.Last(); ok; ok = c.Prev() {
		for i >= 0 && !has[i] {
			i--
		}
		vAssert(i >= 0, "descending walk yields no key twice and no dead key")
		k, v := c.Key(), c.Value()
		vAssert(len(k) == 1 && k[0] == byte(10*(i+1)) && len(v) == 1 && v[0] == val[i], "descending walk yields the overlaid map in reverse key order")
		i--
	}
	for i >= 0 && !has[i] {
		i--
	}
	vAssert(i == -1, "descending walk yields every live key")
	// seek, then one step
	sk := vNondetU8("seekKey")
	i = 0
	for i < n && (byte(10*(i+1)) < sk || !has[i]) {
		i++
	}
	ok := c.Seek([]byte{sk})
	vAssert(ok == (i < n), "Seek finds the first live key >= the target")
	if ok {
		k, v := c.Key(), c.Value()
		vAssert(k[0] == byte(10*(i+1)) && v[0] == val[i], "Seek lands on that key with the overlaid value")
		i++
		for i < n && !has[i] {
			i++
		}
		ok = c.Next()
		vAssert(ok == (i < n), "Next after Seek continues with the following live key")
		if ok {
			vAssert(c.Key()[0] == byte(10*(i+1)) && c.Value()[0] == val[i], "with its overlaid value")
		}
	}
	vReach("end")
}
