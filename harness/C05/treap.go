//verif:module .
//verif:pkg database/internal/treap
package treap

// association-list model of an ordered map with 1-byte keys
type vKV struct {
	k, v byte
}

func vModelGet(m []vKV, k byte) (byte, bool) {
	for _, e := range m {
		if e.k == k {
			return e.v, true
		}
	}
	return 0, false
}

func vModelPut(m []vKV, k, v byte) []vKV {
	out := make([]vKV, 0, len(m)+1)
	done := false
	for _, e := range m {
		if e.k == k {
			out = append(out, vKV{k, v})
			done = true
		} else {
			out = append(out, e)
		}
	}
	if !done {
		out = append(out, vKV{k, v})
	}
	return out
}

func vModelDel(m []vKV, k byte) []vKV {
	out := make([]vKV, 0, len(m))
	for _, e := range m {
		if e.k != k {
			out = append(out, e)
		}
	}
	return out
}

func vCheckImmutable(t *Immutable, m []vKV, q byte, tag string) {
	v, ok := vModelGet(m, q)
	got := t.Get([]byte{q})
	vAssert(t.Has([]byte{q}) == ok, tag+": Has(q) == model")
	if ok {
		vAssert(len(got) == 1 && got[0] == v, tag+": Get(q) == model value")
	} else {
		vAssert(got == nil, tag+": Get(absent) == nil")
	}
	vAssert(t.Len() == len(m), tag+": Len == number of keys")
	vAssert(t.Size() == uint64(len(m))*(nodeFieldsSize+2), tag+": Size == sum of node sizes")
	// in-order traversal strictly increasing, heap order on priorities
	var last int = -1
	n := 0
	t.ForEach(func(k, v []byte) bool {
		vAssert(int(k[0]) > last, tag+": ForEach visits keys in strictly increasing order")
		last = int(k[0])
		n++
		return true
	})
	vAssert(n == len(m), tag+": ForEach visits every key once")
	vHeapOK(t.root, tag)
}

func vHeapOK(n *treapNode, tag string) {
	if n == nil {
		return
	}
	if n.left != nil {
		vAssert(n.left.priority >= n.priority, tag+": heap order (left): min-heap on priorities")
		vHeapOK(n.left, tag)
	}
	if n.right != nil {
		vAssert(n.right.priority >= n.priority, tag+": heap order (right): min-heap on priorities")
		vHeapOK(n.right, tag)
	}
}

// C05(1): immutable treap == persistent ordered map: every sequence of up to 3 Put/Delete operations with
// symbolic 1-byte keys / values / priorities; each older version still answers as before (snapshot isolation).
//verif:opts reach=end
func VH_immutable_treap_ops() {
	nops := 1 + vNondetLen("nops", 1+vTier())
	t := NewImmutable()
	var m []vKV
	versions := []*Immutable{t}
	models := [][]vKV{m}
	for i := 0; i < nops; i++ {
		k := vNondetU8("k")
		if vNondetBool("isPut") {
			v := vNondetU8("v")
			t = t.Put(KVPair{Key: []byte{k}, Value: []byte{v}})
			m = vModelPut(m, k, v)
		} else {
			t = t.Delete([]byte{k})
			m = vModelDel(m, k)
		}
		versions = append(versions, t)
		models = append(models, m)
	}
	q := vNondetU8("q")
	for i := range versions {
		vCheckImmutable(versions[i], models[i], q, "version")
	}
	vReach("end")
}

// C05(1): mutable treap == ordered map (same model, no snapshot clause)
//verif:opts reach=end
func VH_mutable_treap_ops() {
	nops := 1 + vNondetLen("nops", 1+vTier())
	t := NewMutable()
	var m []vKV
	for i := 0; i < nops; i++ {
		k := vNondetU8("k")
		if vNondetBool("isPut") {
			v := vNondetU8("v")
			t.Put([]byte{k}, []byte{v})
			m = vModelPut(m, k, v)
		} else {
			t.Delete([]byte{k})
			m = vModelDel(m, k)
		}
	}
	q := vNondetU8("q")
	v, ok := vModelGet(m, q)
	got := t.Get([]byte{q})
	vAssert(t.Has([]byte{q}) == ok, "Has(q) == model")
	if ok {
		vAssert(len(got) == 1 && got[0] == v, "Get(q) == model value")
	} else {
		vAssert(got == nil, "Get(absent) == nil")
	}
	vAssert(t.Len() == len(m), "Len == number of keys")
	last, n := -1, 0
	t.ForEach(func(k, v []byte) bool {
		vAssert(int(k[0]) > last, "ForEach strictly increasing")
		last = int(k[0])
		n++
		return true
	})
	vAssert(n == len(m), "ForEach visits every key once")
	vHeapOK(t.root, "mutable")
	vReach("end")
}

// exact content of a version, through ForEach and through the iterator in both directions
func vCheckContent(t *Immutable, m []vKV, tag string) {
	// model sorted by key (selection)
	s := append([]vKV{}, m...)
	for i := 0; i < len(s); i++ {
		for j := i + 1; j < len(s); j++ {
			if s[j].k < s[i].k {
				s[i], s[j] = s[j], s[i]
			}
		}
	}
	i := 0
	t.ForEach(func(k, v []byte) bool {
		vAssert(i < len(s) && k[0] == s[i].k && v[0] == s[i].v, tag+": ForEach yields exactly the model's pairs in key order")
		i++
		return true
	})
	vAssert(i == len(s), tag+": ForEach yields every pair")
	it := t.Iterator(nil, nil)
	i = 0
	for ok := it.First(); ok; ok = it.Next() {
		vAssert(i < len(s) && it.Key()[0] == s[i].k && it.Value()[0] == s[i].v, tag+": forward iteration == model")
		i++
	}
	vAssert(i == len(s), tag+": forward iteration visits every pair")
	i = len(s) - 1
	for ok := it.Last(); ok; ok = it.Prev() {
		vAssert(i >= 0 && it.Key()[0] == s[i].k && it.Value()[0] == s[i].v, tag+": backward iteration == model")
		i--
	}
	vAssert(i == -1, tag+": backward iteration visits every pair")
}

func vBuildTreap(keys, vals []byte, prios []int) *treapNode {
	if len(keys) == 0 {
		return nil
	}
	r := 0
	for i := range keys {
		if prios[i] < prios[r] {
			r = i
		}
	}
	nd := newTreapNode([]byte{keys[r]}, []byte{vals[r]}, prios[r])
	nd.left = vBuildTreap(keys[:r], vals[:r], prios[:r])
	nd.right = vBuildTreap(keys[r+1:], vals[r+1:], prios[r+1:])
	return nd
}

// C05(1'): snapshot isolation where it is hardest: a version with three (thorough: four) keys and arbitrary
// priorities (hence every tree shape) is kept by a reader while a writer derives a new version by deleting or
// overwriting one key: the kept version still iterates (ForEach, iterator forwards and backwards) over exactly its
// original pairs, and the new version over exactly the updated ones.
//verif:opts reach=end
func VH_immutable_treap_snapshot_under_delete() {
	n := 3 + vTier()
	var m []vKV
	keys := make([]byte, n)
	vals := make([]byte, n)
	prios := make([]int, n)
	for i := 0; i < n; i++ {
		keys[i], vals[i], prios[i] = byte(10*(i+1)), vNondetU8("v"), int(vNondetU8("priority"))
		m = vModelPut(m, keys[i], vals[i])
	}
	// the version is built directly from arbitrary priorities (math/rand is not under the replay's control): the
	// unique min-heap ordered binary search tree for them, i.e. every shape Put can produce
	root := vBuildTreap(keys, vals, prios)
	t := newImmutable(root, n, uint64(n)*(nodeFieldsSize+2))
	old, oldModel := t, m
	k := byte(10 * (1 + vNondetLen("victim", n-1)))
	var nm []vKV
	if vNondetBool("delete") {
		t = old.Delete([]byte{k})
		nm = vModelDel(oldModel, k)
	} else {
		nv := vNondetU8("newValue")
		t = old.Put(KVPair{Key: []byte{k}, Value: []byte{nv}})
		nm = vModelPut(oldModel, k, nv)
	}
	vCheckContent(old, oldModel, "kept version")
	vCheckContent(t, nm, "new version")
	// (the min-heap order on priorities is NOT asserted here: Delete rotates the higher-priority child up, which
	// breaks it for a node with two children - a balance matter only, outside the property; see DESIGN 9.3)
	vReach("end")
}
