//verif:module .
//verif:pkg database/internal/treap
package treap

// association-list model of an ordered map with 1-byte keys
type vKV struct {
	k, v byte
}

func vModelGet(m []vKV, k byte) (byte, bool) {
	for _, e := range m {
		if e.k == k {
			return e.v, true
		}
	}
	return 0, false
}

func vModelPut(m []vKV, k, v byte) []vKV {
	out := make([]vKV, 0, len(m)+1)
	done := false
	for _, e := range m {
		if e.k == k {
			out = append(out, vKV{k, v})
			done = true
		} else {
			out = append(out, e)
		}
	}
	if !done {
		out = append(out, vKV{k, v})
	}
	return out
}

func vModelDel(m []vKV, k byte) []vKV {
	out := make([]vKV, 0, len(m))
	for _, e := range m {
		if e.k != k {
			out = append(out, e)
		}
	}
	return out
}

func vCheckImmutable(t *Immutable, m []vKV, q byte, tag string) {
	v, ok := vModelGet(m, q)
	got := t.Get([]byte{q})
	vAssert(t.Has([]byte{q}) == ok, tag+": Has(q) == model")
	if ok {
		vAssert(len(got) == 1 && got[0] == v, tag+": Get(q) == model value")
	} else {
		vAssert(got == nil, tag+": Get(absent) == nil")
	}
	vAssert(t.Len() == len(m), tag+": Len == number of keys")
	vAssert(t.Size() == uint64(len(m))*(nodeFieldsSize+2), tag+": Size == sum of node sizes")
	// in-order traversal strictly increasing, heap order on priorities
	var last int = -1
	n := 0
	t.ForEach(func(k, v []byte) bool {
		vAssert(int(k[0]) > last, tag+": ForEach visits keys in strictly increasing order")
		last = int(k[0])
		n++
		return true
	})
	vAssert(n == len(m), tag+": ForEach visits every key once")
	vHeapOK(t.root, tag)
}

func vHeapOK(n *treapNode, tag string) {
	if n == nil {
		return
	}
	if n.left != nil {
		vAssert(n.left.priority >= n.priority, tag+": heap order (left): min-heap on priorities")
		vHeapOK(n.left, tag)
	}
	if n.right != nil {
		vAssert(n.right.priority >= n.priority, tag+": heap order (right): min-heap on priorities")
		vHeapOK(n.right, tag)
	}
}

// C05(1): immutable treap == persistent ordered map: every sequence of up to 3 Put/Delete operations with
// symbolic 1-byte keys / values / priorities; each older version still answers as before (snapshot isolation).
//verif:opts reach=end
func VH_immutable_treap_ops() {
	nops := 1 + vNondetLen("nops", 1+vTier())
	t := NewImmutable()
	var m []vKV
	versions := []*Immutable{t}
	models := [][]vKV{m}
	for i := 0; i < nops; i++ {
		k := vNondetU8("k")
		if vNondetBool("isPut") {
			v := vNondetU8("v")
			t = t.Put(KVPair{Key: []byte{k}, Value: []byte{v}})
			m = vModelPut(m, k, v)
		} else {
			t = t.Delete([]byte{k})
			m = vModelDel(m, k)
		}
		versions = append(versions, t)
		models = append(models, m)
	}
	q := vNondetU8("q")
	for i := range versions {
		vCheckImmutable(versions[i], models[i], q, "version")
	}
	vReach("end")
}

// C05(1): mutable treap == ordered map (same model, no snapshot clause)
//verif:opts reach=end
func VH_mutable_treap_ops() {
	nops := 1 + vNondetLen("nops", 1+vTier())
	t := NewMutable()
	var m []vKV
	for i := 0; i < nops; i++ {
		k := vNondetU8("k")
		if vNondetBool("isPut") {
			v := vNondetU8("v")
			t.Put([]byte{k}, []byte{v})
			m = vModelPut(m, k, v)
		} else {
			t.Delete([]byte{k})
			m = vModelDel(m, k)
		}
	}
	q := vNondetU8("q")
	v, ok := vModelGet(m, q)
	got := t.Get([]byte{q})
	vAssert(t.Has([]byte{q}) == ok, "Has(q) == model")
	if ok {
		vAssert(len(got) == 1 && got[0] == v, "Get(q) == model value")
	} else {
		vAssert(got == nil, "Get(absent) == nil")
	}
	vAssert(t.Len() == len(m), "Len == number of keys")
	last, n := -1, 0
	t.ForEach(func(k, v []byte) bool {
		vAssert(int(k[0]) > last, "ForEach strictly increasing")
		last = int(k[0])
		n++
		return true
	})
	vAssert(n == len(m), "ForEach visits every key once")
	vHeapOK(t.root, "mutable")
	vReach("end")
}
