//verif:module .
//verif:pkg database/ffldb
package ffldb

import "github.com/btcsuite/btcd/database/internal/treap"

// C05(8): keys iterate in byte order through a snapshot that merges the unflushed cache with the database: the
// database side is any subset of 3 (thorough 4) keys with arbitrary values (served through the same
// iterator.Iterator interface leveldb implements, backed by a treap), the cache holds an arbitrary assignment of
// {put v, delete, nothing} per key; walking First/Next, Last/Prev and Seek(k)/Next yields exactly the merged map
// in ascending, descending and ascending-from-k order.
//verif:opts reach=end
func VH_dbcache_iterator_merge() {
	n := 3 + vTier()
	dbT := treap.NewImmutable()
	keys := treap.NewImmutable()
	rem := treap.NewImmutable()
	has := make([]bool, n)
	val := make([]byte, n)
	for i := 0; i < n; i++ {
		k := []byte{byte(10 * (i + 1))}
		if vNondetBool("inDB") {
			v := vNondetU8("dbVal")
			dbT = dbT.Put(treap.KVPair{Key: k, Value: []byte{v}})
			has[i], val[i] = true, v
		}
		switch vNondetLen("cacheAction", 2) {
		case 1:
			v := vNondetU8("putVal")
			keys = keys.Put(treap.KVPair{Key: k, Value: []byte{v}})
			has[i], val[i] = true, v
		case 2:
			rem = rem.Put(treap.KVPair{Key: k, Value: nil})
			has[i] = false
		}
	}
	snap := &dbCacheSnapshot{pendingKeys: keys, pendingRemove: rem}
	it := &dbCacheIterator{cacheSnapshot: snap,
		dbIter:    &ldbCacheIter{Iterator: dbT.Iterator(nil, nil)},
		cacheIter: &ldbCacheIter{Iterator: keys.Iterator(nil, nil)}}
	// ascending
	i := 0
	for ok := it.First(); ok; ok = it.Next() {
		for i < n && !has[i] {
			i++
		}
		vAssert(i < n && it.Key()[0] == byte(10*(i+1)) && it.Value()[0] == val[i], "ascending walk yields the merged map in key order")
		i++
	}
	for i < n && !has[i] {
		i++
	}
	vAssert(i == n, "ascending walk yields every key of the merged map")
	// descending
	i = n - 1
	for ok := it.Last(); ok; ok = it.Prev() {
		for i >= 0 && !has[i] {
			i--
		}
		vAssert(i >= 0 && it.Key()[0] == byte(10*(i+1)) && it.Value()[0] == val[i], "descending walk yields the merged map in reverse key order")
		i--
	}
	for i >= 0 && !has[i] {
		i--
	}
	vAssert(i == -1, "descending walk yields every key of the merged map")
	// seek to an arbitrary position (between, on, before or after the keys), then ascend
	sk := vNondetU8("seekKey")
	i = 0
	for i < n && (byte(10*(i+1)) < sk || !has[i]) {
		i++
	}
	ok := it.Seek([]byte{sk})
	vAssert(ok == (i < n), "Seek finds the first merged key >= the target")
	if ok {
		vAssert(it.Key()[0] == byte(10*(i+1)) && it.Value()[0] == val[i], "Seek lands on that key with its merged value")
	}
	vReach("end")
}
