//verif:module btcec
//verif:pkg ellswift
package ellswift

import (
	"github.com/btcsuite/btcd/btcec/v2"
	"github.com/btcsuite/btcd/chainhash/v2"
)

// the x-only ECDH of the ElligatorSwift keys is curve arithmetic (outside the encoder): an arbitrary 32-byte value
var vEcdhX [32]byte

func vStubECDHXOnly(ellswiftTheirs [64]byte, privKey *btcec.PrivateKey) ([32]byte, error) {
	return vEcdhX, nil
}

// C19(7): BIP324 shared secret = TaggedHash("bip324_ellswift_xonly_ecdh", ellswift_initiator || ellswift_responder ||
// ecdh_x): the INITIATOR's encoding comes first on both sides, so that both roles derive the same secret and it is
// the one the specification prescribes - for arbitrary encodings and an arbitrary ECDH result.
//verif:opts reach=end noverride=ellswift.go:EllswiftECDHXOnly:vStubECDHXOnly
func VH_v2ecdh_secret_layout() {
	var ours, theirs [64]byte
	copy(ours[:], vNondetBytes("ours", 64))
	copy(theirs[:], vNondetBytes("theirs", 64))
	copy(vEcdhX[:], vNondetBytes("ecdhX", 32))
	initiating := vNondetBool("initiating")
	var priv *btcec.PrivateKey // only handed to the (stubbed) ECDH
	got, err := V2Ecdh(priv, theirs, ours, initiating)
	vAssert(err == nil && got != nil, "secret derived")
	var msg []byte
	if initiating {
		msg = append(append(append(msg, ours[:]...), theirs[:]...), vEcdhX[:]...)
	} else {
		msg = append(append(append(msg, theirs[:]...), ours[:]...), vEcdhX[:]...)
	}
	want := chainhash.TaggedHash([]byte("bip324_ellswift_xonly_ecdh"), msg)
	vAssert(*got == *want, "secret == H_tag(initiator key || responder key || x)")
	vReach("end")
}
