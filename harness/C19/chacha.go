//verif:module v2transport
//verif:pkg .
package v2transport

import (
	"crypto/cipher"
	"errors"

	"golang.org/x/crypto/chacha20"
)

func vNewCipher(key, nonce []byte) (*chacha20.Cipher, error) {
	return chacha20.NewUnauthenticatedCipher(key, nonce)
}

// mock AEAD behind the cipher.AEAD interface: records every call; "ciphertext" = plaintext || 16-byte tag
// where the tag is the first 16 key bytes (so decryption under another key fails).
type vAEAD struct {
	key      []byte
	lastOp   int // 1 seal, 2 open
	nonces   [][]byte
	lastAAD  []byte
	lastText []byte
	calls    int
}

func (a *vAEAD) NonceSize() int { return 12 }
func (a *vAEAD) Overhead() int  { return 16 }
func (a *vAEAD) Seal(dst, nonce, plaintext, aad []byte) []byte {
	a.calls++
	a.lastOp = 1
	a.nonces = append(a.nonces, append([]byte{}, nonce...))
	a.lastAAD, a.lastText = aad, plaintext
	out := append(dst, plaintext...)
	return append(out, a.key[:16]...)
}
func (a *vAEAD) Open(dst, nonce, ciphertext, aad []byte) ([]byte, error) {
	a.calls++
	a.lastOp = 2
	a.nonces = append(a.nonces, append([]byte{}, nonce...))
	a.lastAAD, a.lastText = aad, ciphertext
	if len(ciphertext) < 16 {
		return nil, errors.New("short")
	}
	n := len(ciphertext) - 16
	for i := 0; i < 16; i++ {
		if ciphertext[n+i] != a.key[i] {
			return nil, errors.New("auth")
		}
	}
	return append(dst, ciphertext[:n]...), nil
}

var vLastNewAEAD *vAEAD

func vStubNewAEAD(key []byte) (cipher.AEAD, error) {
	vLastNewAEAD = &vAEAD{key: append([]byte{}, key...)}
	return vLastNewAEAD, nil
}

func vLE(v uint64, n int) []byte {
	b := make([]byte, n)
	for i := 0; i < n; i++ {
		b[i] = byte(v % 256)
		v /= 256
	}
	return b
}

func vEq(a, b []byte) bool {
	if len(a) != len(b) {
		return false
	}
	for i := range a {
		if a[i] != b[i] {
			return false
		}
	}
	return true
}

// C19(1): FSChaCha20Poly1305.crypt, one step from an arbitrary packet counter (all 2^64 values): message
// nonce, counter increment, rekey exactly every 224 messages with the BIP324 rekey nonce and key.
//verif:opts reach=rekey,norekey override=golang.org/x/crypto/chacha20poly1305.New:vStubNewAEAD novalidate=1
func VH_fschacha20poly1305_step() {
	ctr := vNondetU64("ctr")
	key := vNondetBytes("key", 32)
	old := &vAEAD{key: key}
	f := &FSChaCha20Poly1305{key: key, packetCtr: ctr, cipher: old}
	decrypt := vNondetBool("decrypt")
	text := vNondetBytes("text", 2)
	aad := vNondetBytes("aad", 1)
	var in []byte
	if decrypt {
		in = append(append([]byte{}, text...), key[:16]...)
	} else {
		in = text
	}
	vLastNewAEAD = nil
	out, err := f.crypt(aad, in, decrypt)
	vAssert(err == nil, "step succeeds")
	if decrypt {
		vAssert(vEq(out, text), "decrypt returns the plaintext")
	}
	// message nonce: LE32(ctr mod 224) || LE64(ctr div 224)
	want := append(vLE(ctr%224, 4), vLE(ctr/224, 8)...)
	vAssert(len(old.nonces) >= 1 && vEq(old.nonces[0], want), "message nonce = LE32(ctr mod 224) || LE64(ctr div 224)")
	vAssert(vEq(old.lastAAD, aad) || old.calls == 2, "aad passed through")
	vAssert(f.packetCtr == ctr+1, "packet counter advances by one (encrypt and decrypt alike)")
	if (ctr+1)%224 == 0 {
		vAssert(old.calls == 2, "rekey performs one extra Seal under the old key")
		rk := append([]byte{0xff, 0xff, 0xff, 0xff}, vLE(ctr/224, 8)...)
		vAssert(vEq(old.nonces[1], rk), "rekey nonce = ffffffff || LE64(ctr div 224)")
		vAssert(len(old.lastText) == 32 && old.lastAAD == nil, "rekey seals 32 bytes with empty aad")
		for i := 0; i < 32; i++ {
			vAssert(old.lastText[i] == 0, "rekey plaintext is all zero")
		}
		vAssert(vLastNewAEAD != nil && f.cipher == cipher.AEAD(vLastNewAEAD), "a new AEAD replaces the old one")
		// new key = first 32 bytes of the rekey ciphertext = the 32 zero bytes under the mock
		vAssert(len(f.key) == 32 && vEq(vLastNewAEAD.key, f.key), "new AEAD keyed with the first 32 bytes of the rekey ciphertext")
		vReach("rekey")
	} else {
		vAssert(old.calls == 1 && vLastNewAEAD == nil && f.cipher == cipher.AEAD(old), "no rekey between multiples of 224")
		vReach("norekey")
	}
}

// C19(2): FSChaCha20.Crypt one step from an arbitrary chunk counter: output = text xor key stream continuing at
// the current position; rekey every 224 chunks with key = next 32 key-stream bytes, nonce = 0 || LE64(ctr div 224)
//verif:opts reach=rekey,norekey novalidate=1
func VH_fschacha20_step() {
	key := vNondetBytes("key", 32)
	f, err := NewFSChaCha20(key)
	vAssert(err == nil, "construct")
	ctr := vNondetU64("ctr")
	f.chunkCtr = ctr
	text := vNondetBytes("text", 3)
	// reference: an independent cipher object with the same key / initial nonce
	ref, _ := NewFSChaCha20(key)
	want := make([]byte, 3)
	ref.cipher.XORKeyStream(want, text)
	out, err := f.Crypt(text)
	vAssert(err == nil && vEq(out, want), "output = text xor key stream at the current position")
	vAssert(f.chunkCtr == ctr+1, "chunk counter advances by one")
	if (ctr+1)%224 == 0 {
		nk := make([]byte, 32)
		ref.cipher.XORKeyStream(nk, make([]byte, 32))
		vAssert(vEq(f.key, nk), "new key = next 32 key-stream bytes")
		// the new cipher starts at position 0 with nonce 0 || LE64((ctr+1) div 224)
		probe := make([]byte, 1)
		f.cipher.XORKeyStream(probe, []byte{0})
		nonce := append([]byte{0, 0, 0, 0}, vLE((ctr+1)/224, 8)...)
		ref2, _ := NewFSChaCha20(nk)
		_ = ref2
		c2, _ := vNewCipher(nk, nonce)
		p2 := make([]byte, 1)
		c2.XORKeyStream(p2, []byte{0})
		vAssert(probe[0] == p2[0], "rekeyed cipher = ChaCha20(new key, 0 || LE64(rekey count)) from position 0")
		vReach("rekey")
	} else {
		vAssert(vEq(f.key, key), "key unchanged between multiples of 224")
		// stream continues
		a, b := make([]byte, 1), make([]byte, 1)
		f.cipher.XORKeyStream(a, []byte{0})
		ref.cipher.XORKeyStream(b, []byte{0})
		vAssert(a[0] == b[0], "key stream continues without reset")
		vReach("norekey")
	}
}
