//verif:module v2transport
//verif:pkg .
package v2transport

// separate directions: what the local peer writes goes to out, what it reads comes from in
type vDuplex struct {
	in  *vPipe
	out *vPipe
}

func (d *vDuplex) Write(b []byte) (int, error) { return d.out.Write(b) }
func (d *vDuplex) Read(b []byte) (int, error)  { return d.in.Read(b) }

// C19(6): the handshake tolerates every legal amount of garbage: with the key exchange done (ciphers and garbage
// terminators installed directly), a conforming remote sends G garbage bytes, its 16-byte terminator and its
// version packet (authenticated with the garbage as associated data); CompleteHandshake succeeds for every
// G in 0..4095 (boundary values in the quick tier: 0, 1, 4094, 4095) and consumes exactly what was sent, and a
// terminator that only arrives after 4096 garbage bytes is refused.
//verif:opts reach=ok,toolong max_steps=40000000 t_max_steps=400000000
func VH_handshake_garbage_lengths() {
	lens := []int{0, 1, 4094, 4095, 4096}
	if vTier() == 1 {
		lens = []int{0, 1, 2, 15, 16, 17, 31, 32, 33, 1000, 2048, 4093, 4094, 4095, 4096, 4097}
	}
	G := lens[vNondetLen("garbageLen", len(lens)-1)]
	keyL := make([]byte, 32)
	keyP := make([]byte, 32)
	for i := range keyL {
		keyL[i], keyP[i] = byte(i+1), byte(0x80+i)
	}
	term := make([]byte, 16)
	for i := range term {
		term[i] = byte(0xe0 + i)
	}
	// the remote's stream: garbage (never containing the terminator), terminator, version packet
	garbage := make([]byte, G)
	for i := range garbage {
		garbage[i] = byte(i % 7)
	}
	toLocal := &vPipe{}
	rsl, _ := NewFSChaCha20(keyL)
	remote := &Peer{sendL: rsl, sendP: &FSChaCha20Poly1305{key: keyP, cipher: &vAEAD2{key: keyP}}, rw: toLocal}
	toLocal.Write(garbage)
	toLocal.Write(term)
	_, _, err := remote.V2EncPacket(transportVersion, garbage, false)
	vAssert(err == nil, "remote builds its version packet")

	lrl, _ := NewFSChaCha20(keyL)
	lsl, _ := NewFSChaCha20(keyL)
	fromLocal := &vPipe{}
	local := &Peer{responderReady: true,
		sendL: lsl, sendP: &FSChaCha20Poly1305{key: keyP, cipher: &vAEAD2{key: keyP}},
		recvL: lrl, recvP: &FSChaCha20Poly1305{key: keyP, cipher: &vAEAD2{key: keyP}},
		recvGarbageTerm: term, rw: &vDuplex{in: toLocal, out: fromLocal}}
	herr := local.CompleteHandshake(false, nil, BitcoinNet(0))
	if G <= MaxGarbageLen {
		vAssert(herr == nil, "a handshake with at most 4095 bytes of garbage completes")
		vAssert(toLocal.pos == len(toLocal.buf), "garbage, terminator and version packet are consumed exactly")
		vReach("ok")
	} else {
		vAssert(herr != nil, "more than 4095 bytes of garbage before the terminator is refused")
		vReach("toolong")
	}
}
