//verif:module v2transport
//verif:pkg .
package v2transport

// C19(4): the v1 downgrade detector compares against magic (little endian) || "version" || five NUL bytes
//verif:opts reach=end
func VH_v1_prefix() {
	net := BitcoinNet(vNondetU32("net"))
	p := createV1Prefix(net)
	vAssert(len(p) == 16, "16 bytes")
	vAssert(uint32(p[0])|uint32(p[1])<<8|uint32(p[2])<<16|uint32(p[3])<<24 == uint32(net), "network magic little endian")
	want := "version\x00\x00\x00\x00\x00"
	for i := 0; i < 12; i++ {
		vAssert(p[4+i] == want[i], "command field of a v1 version message")
	}
	vReach("end")
}
