//verif:module v2transport
//verif:pkg .
package v2transport

import (
	"errors"
	"io"
)

// in-memory duplex: everything written is read back in order
type vPipe struct {
	buf []byte
	pos int
}

func (p *vPipe) Write(b []byte) (int, error) { p.buf = append(p.buf, b...); return len(b), nil }
func (p *vPipe) Read(b []byte) (int, error) {
	if p.pos >= len(p.buf) {
		return 0, io.EOF
	}
	n := copy(b, p.buf[p.pos:])
	p.pos += n
	return n, nil
}

// AEAD mock whose tag binds key, nonce-independent, AND the associated data (length and first byte), so that a
// packet sealed with one AAD does not open under another
type vAEAD2 struct{ key []byte }

func (a *vAEAD2) NonceSize() int { return 12 }
func (a *vAEAD2) Overhead() int  { return 16 }
func (a *vAEAD2) tag(aad []byte) []byte {
	t := append([]byte{}, a.key[:14]...)
	t = append(t, byte(len(aad)))
	if len(aad) > 0 {
		t = append(t, aad[0])
	} else {
		t = append(t, 0)
	}
	return t
}
func (a *vAEAD2) Seal(dst, nonce, plaintext, aad []byte) []byte {
	return append(append(dst, plaintext...), a.tag(aad)...)
}
func (a *vAEAD2) Open(dst, nonce, ciphertext, aad []byte) ([]byte, error) {
	if len(ciphertext) < 16 {
		return nil, errors.New("short")
	}
	n := len(ciphertext) - 16
	t := a.tag(aad)
	for i := 0; i < 16; i++ {
		if ciphertext[n+i] != t[i] {
			return nil, errors.New("message authentication failed")
		}
	}
	return append(dst, ciphertext[:n]...), nil
}

func vMkPeers(pipe *vPipe) (*Peer, *Peer) {
	keyL := vNondetBytes("keyL", 32)
	keyP := vNondetBytes("keyP", 32)
	sl, _ := NewFSChaCha20(keyL)
	rl, _ := NewFSChaCha20(keyL)
	snd := &Peer{sendL: sl, sendP: &FSChaCha20Poly1305{key: keyP, cipher: &vAEAD2{key: keyP}}, rw: pipe}
	rcv := &Peer{recvL: rl, recvP: &FSChaCha20Poly1305{key: keyP, cipher: &vAEAD2{key: keyP}}, rw: pipe}
	return snd, rcv
}

// C19(3): packet framing: 1..3 packets (decoys allowed) sent with V2EncPacket are delivered by V2ReceivePacket as
// exactly the non-ignored contents in order; the 3-byte little-endian length prefix and body size are as
// BIP324 says; the associated data (the garbage) authenticates the FIRST packet only, also when it is a decoy.
//verif:opts reach=end
func VH_packet_framing() {
	pipe := &vPipe{}
	snd, rcv := vMkPeers(pipe)
	garbage := vNondetBytes("garbage", vNondetLen("glen", 1))
	var aad []byte = garbage
	np := 1 + vNondetLen("npackets", 2)
	var wantContents [][]byte
	for i := 0; i < np; i++ {
		c := vNondetBytes("content", vNondetLen("clen", 2))
		ignore := vNondetBool("ignore")
		if i == np-1 {
			ignore = false // the last packet is a real one so that the receiver terminates
		}
		before := len(pipe.buf)
		_, n, err := snd.V2EncPacket(c, aad, ignore)
		vAssert(err == nil, "encrypting a short packet succeeds")
		vAssert(n == 3+1+len(c)+16 && len(pipe.buf)-before == n, "packet size == 3 (length) + 1 (header) + contents + 16 (tag)")
		aad = nil
		if !ignore {
			wantContents = append(wantContents, c)
		}
	}
	raad := garbage
	for k := 0; k < len(wantContents); k++ {
		got, err := rcv.V2ReceivePacket(raad)
		raad = nil
		vAssert(err == nil, "a conforming packet stream is accepted (decoys skipped, AAD on the first packet only)")
		vAssert(len(got) == len(wantContents[k]), "contents length")
		for i := range got {
			vAssert(got[i] == wantContents[k][i], "contents delivered unchanged and in order")
		}
	}
	vAssert(pipe.pos == len(pipe.buf), "the receiver consumed exactly the bytes that were sent")
	vReach("end")
}

// C19(3): a packet authenticated under different associated data is rejected and no plaintext is returned
//verif:opts reach=end
func VH_packet_wrong_aad_rejected() {
	pipe := &vPipe{}
	snd, rcv := vMkPeers(pipe)
	a1 := vNondetBytes("aad1", 1)
	a2 := vNondetBytes("aad2", 1)
	vAssume(a1[0] != a2[0])
	_, _, err := snd.V2EncPacket(vNondetBytes("content", 1), a1, false)
	vAssert(err == nil, "sent")
	got, err := rcv.V2ReceivePacket(a2)
	vAssert(err != nil && got == nil, "a packet sealed under other associated data is rejected")
	vReach("end")
}

// C19(3'): the 3-byte length field: for content lengths on both sides of every byte boundary of the field
// (0, 255, 256, 65535, 65536, 65537; thorough adds 1, 257 and 2^18; larger packets are outside the bound) the enciphered length prefix deciphers to the
// little-endian content length and the receiver returns exactly the contents.
//verif:opts reach=end max_steps=60000000 t_max_steps=2000000000
func VH_packet_length_field() {
	lens := []int{0, 255, 256, 65535, 65536, 65537}
	if vTier() == 1 {
		lens = []int{0, 1, 255, 256, 257, 65535, 65536, 65537, 1 << 18}
	}
	L := lens[vNondetLen("contentLen", len(lens)-1)]
	pipe := &vPipe{}
	keyL := make([]byte, 32)
	keyP := make([]byte, 32)
	for i := range keyL {
		keyL[i], keyP[i] = byte(3*i+1), byte(0x55+i)
	}
	sl, _ := NewFSChaCha20(keyL)
	rl, _ := NewFSChaCha20(keyL)
	ref, _ := NewFSChaCha20(keyL)
	snd := &Peer{sendL: sl, sendP: &FSChaCha20Poly1305{key: keyP, cipher: &vAEAD2{key: keyP}}, rw: pipe}
	rcv := &Peer{recvL: rl, recvP: &FSChaCha20Poly1305{key: keyP, cipher: &vAEAD2{key: keyP}}, rw: pipe}
	contents := make([]byte, L)
	if L > 0 {
		contents[0], contents[L-1] = 0xa1, 0xb2
	}
	_, n, err := snd.V2EncPacket(contents, nil, false)
	vAssert(err == nil && n == 3+1+L+16 && len(pipe.buf) == n, "packet size == 3 + 1 + contents + 16")
	lenField, err := ref.Crypt(pipe.buf[:3])
	vAssert(err == nil && int(lenField[0])|int(lenField[1])<<8|int(lenField[2])<<16 == L, "the length prefix deciphers to the little-endian content length")
	got, err := rcv.V2ReceivePacket(nil)
	vAssert(err == nil && len(got) == L, "the receiver returns contents of the sent length")
	if L > 1 {
		vAssert(got[0] == 0xa1 && got[L-1] == 0xb2, "contents delivered unchanged")
	} else if L == 1 {
		vAssert(got[0] == 0xb2, "contents delivered unchanged") // first and last byte coincide
	}
	vAssert(pipe.pos == len(pipe.buf), "the receiver consumed exactly the packet")
	vReach("end")
}
