//verif:module txscript
//verif:pkg .
package txscript

// reference sigop counting (Bitcoin Core CScript::GetSigOpCount): CHECKSIG(VERIFY) = 1, CHECKMULTISIG(VERIFY) =
// 20, or the preceding OP_1..OP_16 when counting accurately; parsing stops at the first malformed push.
func specSigOps(s []byte, accurate bool) int {
	n := 0
	last := byte(0xff)
	i := 0
	for i < len(s) {
		op := s[i]
		dl, hdr := 0, 1
		switch {
		case op >= 1 && op <= 75:
			dl = int(op)
		case op == 76:
			if i+1 >= len(s) {
				return n
			}
			hdr, dl = 2, int(s[i+1])
		case op == 77:
			if i+2 >= len(s) {
				return n
			}
			hdr, dl = 3, int(s[i+1])|int(s[i+2])<<8
		case op == 78:
			return n // a 4-byte length cannot fit in the bounded scripts used here
		}
		if i+hdr+dl > len(s) {
			return n
		}
		switch op {
		case OP_CHECKSIG, OP_CHECKSIGVERIFY:
			n++
		case OP_CHECKMULTISIG, OP_CHECKMULTISIGVERIFY:
			if accurate && last >= OP_1 && last <= OP_16 {
				n += int(last - (OP_1 - 1))
			} else {
				n += 20
			}
		}
		last = op
		i += hdr + dl
	}
	return n
}

// C13(4): countSigOpsV0 == the reference count on every script of up to 4 (thorough 6) bytes, both modes
//verif:opts reach=end
func VH_count_sigops() {
	n := vNondetLen("len", 3+2*vTier())
	s := vNondetBytes("script", n)
	vAssume(n < 5 || s[0] != 78)
	acc := vNondetBool("accurate")
	vAssert(countSigOpsV0(s, acc) == specSigOps(s, acc), "sigop count == reference")
	vAssert(GetSigOpCount(s) == specSigOps(s, false), "GetSigOpCount is the inaccurate count")
	vReach("end")
}

// C13(4): the m-of-n multisig shapes: OP_n CHECKMULTISIG counts n for n = 1..16 when counting accurately
//verif:opts reach=end
func VH_multisig_sigops() {
	k := 1 + vNondetLen("n", 15)
	s := []byte{byte(OP_1 - 1 + k), OP_CHECKMULTISIG, OP_CHECKMULTISIGVERIFY}
	vAssert(countSigOpsV0(s[:2], true) == k, "OP_k CHECKMULTISIG counts k")
	vAssert(countSigOpsV0(s, true) == k+20, "a following CHECKMULTISIGVERIFY is not preceded by a small integer: 20")
	vAssert(countSigOpsV0(s[:2], false) == 20, "inaccurate mode always counts 20")
	vReach("end")
}
