//verif:module .
//verif:pkg blockchain
package blockchain

import (
	"math"
	"time"

	"github.com/btcsuite/btcd/btcutil/v2"
	"github.com/btcsuite/btcd/chainhash/v2"
	"github.com/btcsuite/btcd/wire/v2"
)

// transactions whose ids are arbitrary: version and lock time are symbolic, the id is H(H(serialisation))
// with H uninterpreted, so distinct transactions have unrelated symbolic ids.
func vMkTxs(n int, withWitness bool) []*btcutil.Tx {
	txs := make([]*btcutil.Tx, 0, n)
	for i := 0; i < n; i++ {
		m := wire.NewMsgTx(vNondetI32("version"))
		m.LockTime = vNondetU32("locktime")
		if withWitness {
			m.AddTxIn(&wire.TxIn{Sequence: vNondetU32("seq"), Witness: wire.TxWitness{vNondetBytes("wit", 1)}})
		}
		txs = append(txs, btcutil.NewTx(m))
	}
	return txs
}

func specHashPair(l, r chainhash.Hash) chainhash.Hash {
	var buf []byte
	buf = append(buf, l[:]...)
	buf = append(buf, r[:]...)
	return chainhash.DoubleHashH(buf)
}

// textbook Bitcoin merkle root: pair up, duplicate the last element of an odd level, repeat
func specMerkleRoot(level []chainhash.Hash) chainhash.Hash {
	for len(level) > 1 {
		if len(level)%2 == 1 {
			level = append(level, level[len(level)-1])
		}
		next := make([]chainhash.Hash, 0, len(level)/2)
		for i := 0; i < len(level); i += 2 {
			next = append(next, specHashPair(level[i], level[i+1]))
		}
		level = next
	}
	return level[0]
}

// C13(1): CalcMerkleRoot == last element of BuildMerkleTreeStore == textbook root, txid and wtxid form.
//verif:opts reach=end
func VH_merkle_root() {
	max := 8
	if vTier() == 1 {
		max = 17
	}
	n := 1 + vNondetLen("n", max-1)
	witness := vNondetBool("witness")
	txs := vMkTxs(n, witness)
	leaves := make([]chainhash.Hash, n)
	for i, tx := range txs {
		switch {
		case witness && i == 0:
			// coinbase wtxid is defined as zero
		case witness:
			leaves[i] = *tx.WitnessHash()
		default:
			leaves[i] = *tx.Hash()
		}
	}
	want := specMerkleRoot(leaves)
	got := CalcMerkleRoot(txs, witness)
	vAssert(got == want, "CalcMerkleRoot == textbook merkle root")
	store := BuildMerkleTreeStore(txs, witness)
	vAssert(len(store) >= 1 && store[len(store)-1] != nil, "tree store has a root")
	vAssert(*store[len(store)-1] == want, "BuildMerkleTreeStore root == textbook merkle root")
	for i := 0; i < n; i++ {
		vAssert(store[i] != nil && *store[i] == leaves[i], "tree store leaves are the transaction hashes in order")
	}
	vReach("end")
}

// C13: nextPowerOfTwo
//verif:opts reach=end
func VH_next_pow2() {
	n := 1 + vNondetLen("n", 70)
	p := nextPowerOfTwo(n)
	vAssert(p >= n && p&(p-1) == 0 && p/2 < n, "nextPowerOfTwo is the least power of two >= n")
	vReach("end")
}

// C13(6): IsFinalizedTransaction == consensus IsFinalTx for every lock time / height / time / sequences.
//verif:opts reach=end
func VH_is_finalized() {
	m := wire.NewMsgTx(1)
	m.LockTime = vNondetU32("locktime")
	nin := vNondetLen("nin", 3)
	allFinal := true
	for i := 0; i < nin; i++ {
		s := vNondetU32("seq")
		m.AddTxIn(&wire.TxIn{Sequence: s})
		if s != math.MaxUint32 {
			allFinal = false
		}
	}
	height := vNondetI32("height")
	bt := vNondetI64("blocktime")
	vAssume(bt >= 0 && bt < 1<<40)
	got := IsFinalizedTransaction(btcutil.NewTx(m), height, time.Unix(bt, 0))
	// Bitcoin Core IsFinalTx
	var want bool
	if m.LockTime == 0 {
		want = true
	} else {
		cmp := int64(height)
		if m.LockTime >= 500000000 {
			cmp = bt
		}
		want = int64(m.LockTime) < cmp || allFinal
	}
	vAssert(got == want, "IsFinalizedTransaction == IsFinalTx")
	vReach("end")
}

// C13(6): SequenceLockActive and LockTimeToSequence
//verif:opts reach=end
func VH_sequence_lock_active() {
	sl := &SequenceLock{Seconds: vNondetI64("secs"), BlockHeight: vNondetI32("h")}
	bh := vNondetI32("blockHeight")
	mtp := vNondetI64("mtp")
	vAssume(mtp >= 0 && mtp < 1<<40)
	got := SequenceLockActive(sl, bh, time.Unix(mtp, 0))
	vAssert(got == (sl.Seconds < mtp && sl.BlockHeight < bh), "lock is active iff both coordinates are strictly in the past")
	lt := vNondetU32("lt")
	vAssert(LockTimeToSequence(false, lt) == lt, "height locks map to themselves")
	vAssert(LockTimeToSequence(true, lt) == (1<<22)|(lt>>9), "time locks set bit 22 and use 512-second units")
	vReach("end")
}

// reference decoder for the BIP34 height push
func specCoinbaseHeight(s []byte) (int32, bool) {
	if len(s) < 1 {
		return 0, false
	}
	op := s[0]
	if op == 0 {
		return 0, true
	}
	if op >= 0x51 && op <= 0x60 {
		return int32(op - 0x50), true
	}
	n := int(op)
	if len(s)-1 < n {
		return 0, false
	}
	return 0, true
}

// C13(5): ExtractCoinbaseHeight on every signature script of up to 7 bytes: never panics, small-integer
// opcodes decode to their value, truncated pushes are rejected, an accepted height h re-encodes (minimally)
// as a prefix of the script.
//verif:opts reach=accept,reject
func VH_extract_coinbase_height() {
	n := vNondetLen("len", 7)
	s := vNondetBytes("script", n)
	m := wire.NewMsgTx(1)
	m.AddTxIn(&wire.TxIn{SignatureScript: s})
	h, err := ExtractCoinbaseHeight(btcutil.NewTx(m))
	if err != nil {
		if n >= 1 {
			op := s[0]
			vAssert(op != 0 && !(op >= 0x51 && op <= 0x60), "OP_0 / OP_1..OP_16 are always accepted")
		}
		vReach("reject")
		return
	}
	sh, ok := specCoinbaseHeight(s)
	vAssert(ok, "accepted scripts start with a complete push")
	if s[0] == 0 || (s[0] >= 0x51 && s[0] <= 0x60) {
		vAssert(h == sh, "small-integer opcode heights")
	} else {
		// length-prefixed little-endian; must be the minimal script-number encoding of h
		L := int(s[0])
		vAssert(L <= 4 || h >= 0 || true, "length byte")
		var v uint32
		for i := 0; i < L && i < 4; i++ {
			v |= uint32(s[1+i]) << (8 * uint(i))
		}
		vAssert(uint32(h) == v, "height is the little-endian value of the pushed bytes")
		// BIP34: the script must start with what `CScript() << height` produces - the minimal encoding
		// (a minimally encoded NEGATIVE number is also returned, as a negative height, e.g. 04 000000c0; no wanted
		// height ever equals it, so CheckSerializedHeight rejects it - no claim is made about those)
		if h >= 0 {
			vAssert(L >= 1 && L <= 4, "a height above 16 is pushed as 1..4 bytes")
			top := s[L]
			vAssert(top&0x80 == 0, "the pushed number is not negative")
			vAssert(top != 0 || (L >= 2 && s[L-1]&0x80 != 0), "minimal: no zero padding byte unless the sign bit needs it")
			vAssert(L > 1 || s[1] > 16, "0 and 1..16 must use OP_0 / OP_1..OP_16, not a one-byte push")
		}
	}
	vObserve("h", uint64(uint32(h)))
	vReach("accept")
}

// C13(3): transaction weight = 3*stripped + total size
//verif:opts reach=end
func VH_tx_weight() {
	m := wire.NewMsgTx(vNondetI32("version"))
	nin := 1 + vNondetLen("nin", 1)
	for i := 0; i < nin; i++ {
		ti := &wire.TxIn{SignatureScript: vNondetBytes("ss", vNondetLen("sslen", 2))}
		nw := vNondetLen("nwit", 2)
		for j := 0; j < nw; j++ {
			ti.Witness = append(ti.Witness, vNondetBytes("w", vNondetLen("wlen", 2)))
		}
		m.AddTxIn(ti)
	}
	m.AddTxOut(&wire.TxOut{PkScript: vNondetBytes("pk", vNondetLen("pklen", 2))})
	w := GetTransactionWeight(btcutil.NewTx(m))
	vAssert(w == int64(3*m.SerializeSizeStripped()+m.SerializeSize()), "weight == 3*base + total")
	vAssert(m.HasWitness() || w == int64(4*m.SerializeSize()), "without witness data weight == 4*size")
	vReach("end")
}
