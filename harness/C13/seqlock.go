//verif:module .
//verif:pkg blockchain
package blockchain

import (
	"math/big"

	"github.com/btcsuite/btcd/btcutil/v2"
	"github.com/btcsuite/btcd/wire/v2"
)

// C13(7): calcSequenceLock (mempool mode, so no deployment state is needed) on a 6-block chain with symbolic
// timestamps: == BIP68 - versions are compared unsigned, the disable bit skips an input, the type bit selects
// 512-second units counted from the median time past of the block BEFORE the input's block, otherwise blocks
// counted from the input's height; the result is the maximum over the inputs of (value - 1).
//verif:opts reach=end
func VH_calc_sequence_lock_bip68() {
	L := 6
	var parent *blockNode
	nodes := make([]*blockNode, 0, L)
	last := int64(0)
	for i := 0; i < L; i++ {
		nd := &blockNode{parent: parent, workSum: big.NewInt(0), height: int32(i)}
		nd.hash[0], nd.hash[1] = 0x55, byte(i)
		nd.timestamp = vNondetI64("ts")
		vAssume(nd.timestamp >= last && nd.timestamp < 1<<40)
		last = nd.timestamp
		nd.buildAncestor()
		nodes = append(nodes, nd)
		parent = nd
	}
	tip := nodes[L-1]
	view := NewUtxoViewpoint()
	m := wire.NewMsgTx(vNondetI32("version"))
	nin := 1 + vNondetLen("nin", 1)
	type in struct {
		seq    uint32
		height int32
	}
	ins := make([]in, nin)
	for i := 0; i < nin; i++ {
		var op wire.OutPoint
		op.Hash[0] = byte(0x70 + i)
		ins[i] = in{seq: vNondetU32("seq"), height: int32(vNondetLen("inputHeight", L-1))}
		view.entries[op] = &UtxoEntry{amount: 1, blockHeight: ins[i].height}
		m.AddTxIn(&wire.TxIn{PreviousOutPoint: op, Sequence: ins[i].seq})
	}
	m.AddTxOut(&wire.TxOut{Value: 1})
	var b *BlockChain
	got, err := b.calcSequenceLock(tip, btcutil.NewTx(m), view, true)
	vAssert(err == nil, "all inputs are in the view")
	// ---- BIP68
	wantSec, wantHeight := int64(-1), int32(-1)
	if uint32(m.Version) >= 2 {
		for i := 0; i < nin; i++ {
			s := ins[i].seq
			if s&(1<<31) != 0 {
				continue
			}
			val := int64(s & 0xffff)
			if s&(1<<22) != 0 {
				// median time past of the block before the input's block (up to 11 ancestors; here <= 6)
				ph := ins[i].height - 1
				if ph < 0 {
					ph = 0
				}
				mtp := CalcPastMedianTime(nodes[ph]).Unix()
				t := mtp + val*512 - 1
				if t > wantSec {
					wantSec = t
				}
			} else {
				h := ins[i].height + int32(val) - 1
				if h > wantHeight {
					wantHeight = h
				}
			}
		}
	}
	vAssert(got.Seconds == wantSec && got.BlockHeight == wantHeight, "sequence lock == BIP68 definition")
	vReach("end")
}
