//verif:module .
//verif:pkg blockchain
package blockchain

import (
	"github.com/btcsuite/btcd/btcutil/v2"
	"github.com/btcsuite/btcd/wire/v2"
)

// n x OP_CHECKSIG, or a k-of-k bare multisig skeleton "OP_k OP_k OP_CHECKMULTISIG" (counted as k when counted
// accurately, as 20 otherwise)
func vSigScript(multisig bool, n int) []byte {
	if multisig {
		return []byte{0x50 + byte(n), 0x50 + byte(n), 0xae}
	}
	s := make([]byte, n)
	for i := range s {
		s[i] = 0xac
	}
	return s
}

func vPush(b []byte) []byte { return append([]byte{byte(len(b))}, b...) }

// C13(4'): GetSigOpCost == BIP141 cost: 4 x (legacy count of the transaction's own scripts, multisig = 20) + 4 x
// (accurate count of the P2SH redeem script, once BIP16 is enforced) + (witness sigops once segwit is enforced: 1 for
// P2WPKH, accurate count of the witness script for P2WSH, the same through a P2SH-nested program, 0 for taproot),
// nothing for a coinbase.  One input of each shape, n = 1..3 sigops, one output of a sigop-carrying or plain shape.
//verif:opts reach=end
func VH_get_sigop_cost() {
	n := 1 + vNondetLen("n", 2)
	multisig := vNondetBool("multisig")
	inner := vSigScript(multisig, n)
	accurate := n
	legacyOfInner := n
	if multisig {
		legacyOfInner = 20
	}
	h20 := make([]byte, 20)
	h32 := make([]byte, 32)
	var prevScript, sigScript []byte
	var witness wire.TxWitness
	wantP2SH, wantWitness := 0, 0
	kind := vNondetLen("prevKind", 5)
	switch kind {
	case 0: // P2PKH
		prevScript = append(append([]byte{0x76, 0xa9, 0x14}, h20...), 0x88, 0xac)
		sigScript = vPush([]byte{1, 2, 3})
	case 1: // P2SH redeeming the sigop script
		prevScript = append(append([]byte{0xa9, 0x14}, h20...), 0x87)
		sigScript = vPush(inner)
		wantP2SH = accurate
	case 2: // P2WPKH
		prevScript = append([]byte{0x00, 0x14}, h20...)
		witness = wire.TxWitness{{1}, {2}}
		wantWitness = 1
	case 3: // P2WSH whose witness script is the sigop script
		prevScript = append([]byte{0x00, 0x20}, h32...)
		witness = wire.TxWitness{{1}, inner}
		wantWitness = accurate
	case 4: // P2SH-nested P2WSH
		prevScript = append(append([]byte{0xa9, 0x14}, h20...), 0x87)
		sigScript = vPush(append([]byte{0x00, 0x20}, h32...))
		witness = wire.TxWitness{inner}
		wantWitness = accurate
	default: // taproot
		prevScript = append([]byte{0x51, 0x20}, h32...)
		witness = wire.TxWitness{{1}}
	}
	m := wire.NewMsgTx(2)
	var op wire.OutPoint
	op.Hash[0] = 0x44
	m.AddTxIn(&wire.TxIn{PreviousOutPoint: op, SignatureScript: sigScript, Witness: witness})
	outHasSigops := vNondetBool("outputWithSigops")
	wantLegacy := 0
	if outHasSigops {
		m.AddTxOut(&wire.TxOut{Value: 1, PkScript: inner})
		wantLegacy = legacyOfInner
	} else {
		m.AddTxOut(&wire.TxOut{Value: 1, PkScript: []byte{0x51}})
	}
	view := NewUtxoViewpoint()
	view.entries[op] = &UtxoEntry{amount: 5, blockHeight: 1, pkScript: prevScript}
	bip16, segwit := vNondetBool("bip16"), vNondetBool("segwit")
	isCoinbase := vNondetBool("countAsCoinbase")
	got, err := GetSigOpCost(btcutil.NewTx(m), isCoinbase, view, bip16, segwit)
	want := 4 * wantLegacy
	if kind == 0 {
		// a P2PKH signature script is push only: no legacy sigops there
	}
	if bip16 && !isCoinbase {
		want += 4 * wantP2SH
	}
	if segwit && !isCoinbase {
		want += wantWitness
	}
	vAssert(err == nil && got == want, "sigop cost == 4*legacy + 4*P2SH (BIP16) + witness (segwit)")
	vReach("end")
}
