//verif:module .
//verif:pkg blockchain
package blockchain

import (
	"github.com/btcsuite/btcd/btcutil/v2"
	"github.com/btcsuite/btcd/chainhash/v2"
	"github.com/btcsuite/btcd/wire/v2"
)

var vMagic = []byte{0x6a, 0x24, 0xaa, 0x21, 0xa9, 0xed}

// BIP141: the commitment is in the LAST output whose script is at least 38 bytes and starts with the magic
func specWitnessCommitment(m *wire.MsgTx) ([]byte, bool) {
	found := -1
	for i, o := range m.TxOut {
		s := o.PkScript
		if len(s) >= 38 && s[0] == 0x6a && s[1] == 0x24 && s[2] == 0xaa && s[3] == 0x21 && s[4] == 0xa9 && s[5] == 0xed {
			found = i
		}
	}
	if found < 0 {
		return nil, false
	}
	return m.TxOut[found].PkScript[6:38], true
}

func vMkCoinbaseWithOutputs() *wire.MsgTx {
	cb := wire.NewMsgTx(1)
	cb.AddTxIn(&wire.TxIn{PreviousOutPoint: wire.OutPoint{Index: 0xffffffff}, SignatureScript: []byte{1, 1}, Sequence: 0xffffffff})
	nout := 1 + vNondetLen("nout", 2)
	for i := 0; i < nout; i++ {
		var pk []byte
		switch vNondetLen("outkind", 3) {
		case 0:
			pk = []byte{0x51}
		case 1: // exact commitment shape with arbitrary hash
			pk = append(append([]byte{}, vMagic...), vNondetBytes("commit", 32)...)
		case 2: // commitment shape with trailing bytes (still valid: >= 38 bytes)
			pk = append(append(append([]byte{}, vMagic...), vNondetBytes("commit", 32)...), 0x00, 0x01)
		case 3: // too short: 37 bytes with the magic prefix (must be ignored)
			pk = append(append([]byte{}, vMagic...), vNondetBytes("short", 31)...)
		}
		cb.AddTxOut(&wire.TxOut{PkScript: pk})
	}
	return cb
}

// C13(2): ExtractWitnessCommitment == BIP141 rule (last matching output of at least 38 bytes, bytes 6..38);
// only a coinbase can carry it
//verif:opts reach=found,none
func VH_extract_witness_commitment() {
	cb := vMkCoinbaseWithOutputs()
	got, ok := ExtractWitnessCommitment(btcutil.NewTx(cb))
	want, wok := specWitnessCommitment(cb)
	vAssert(ok == wok, "commitment found iff an output matches the BIP141 pattern")
	if ok {
		vAssert(len(got) == 32, "32-byte commitment")
		for i := 0; i < 32; i++ {
			vAssert(got[i] == want[i], "commitment bytes come from the last matching output")
		}
		vReach("found")
	} else {
		vReach("none")
	}
	// the same outputs in a non-coinbase transaction carry no commitment
	cb.TxIn[0].PreviousOutPoint.Index = 0
	_, ok2 := ExtractWitnessCommitment(btcutil.NewTx(cb))
	vAssert(!ok2, "non-coinbase transactions never carry a commitment")
}

// C13(2): ValidateWitnessCommitment == BIP141: without a commitment no transaction may have witness data; with
// one, the coinbase witness must be a single 32-byte nonce and the commitment must equal H(H(root || nonce)).
//verif:opts reach=accept,reject
func VH_validate_witness_commitment() {
	cb := vMkCoinbaseWithOutputs()
	nw := vNondetLen("nwit", 2)
	for i := 0; i < nw; i++ {
		cb.TxIn[0].Witness = append(cb.TxIn[0].Witness, vNondetBytes("nonce", []int{32, 31, 33}[vNondetLen("noncelen", 2)]))
	}
	other := wire.NewMsgTx(1)
	other.AddTxIn(&wire.TxIn{Sequence: vNondetU32("seq")})
	otherHasWitness := vNondetBool("otherWitness")
	if otherHasWitness {
		other.TxIn[0].Witness = wire.TxWitness{[]byte{7}}
	}
	mb := &wire.MsgBlock{Transactions: []*wire.MsgTx{cb, other}}
	blk := btcutil.NewBlock(mb)
	err := ValidateWitnessCommitment(blk)
	commit, has := specWitnessCommitment(cb)
	var want bool
	if !has {
		want = !otherHasWitness && nw == 0
	} else if nw != 1 || len(cb.TxIn[0].Witness[0]) != 32 {
		want = false
	} else {
		// witness merkle root of [0, wtxid(other)]
		var zero chainhash.Hash
		w := btcutil.NewTx(other).WitnessHash()
		root := specHashPair(zero, *w)
		pre := append(append([]byte{}, root[:]...), cb.TxIn[0].Witness[0]...)
		exp := chainhash.DoubleHashB(pre)
		want = true
		for i := 0; i < 32; i++ {
			if exp[i] != commit[i] {
				want = false
			}
		}
	}
	vAssert((err == nil) == want, "accepted iff the BIP141 commitment rule holds")
	if err == nil {
		vReach("accept")
	} else {
		vReach("reject")
	}
}

// C13(2'): the witness nonce must be EXACTLY 32 bytes even when the commitment was computed over its first 32: a
// block whose coinbase commits (through the real AddWitnessCommitment-style computation, hence with real hashes in
// the replay) to root || nonce[:32] is accepted with a 32-byte nonce and rejected with a 31-, 33- or 64-byte one.
//verif:opts reach=accept,reject
func VH_witness_nonce_length_exact() {
	nlen := []int{32, 31, 33, 64}[vNondetLen("nonceLen", 3)]
	nonce := make([]byte, nlen)
	for i := range nonce {
		nonce[i] = byte(i + 1)
	}
	other := wire.NewMsgTx(1)
	other.AddTxIn(&wire.TxIn{Sequence: vNondetU32("seq"), Witness: wire.TxWitness{[]byte{7}}})
	cb := wire.NewMsgTx(1)
	cb.AddTxIn(&wire.TxIn{PreviousOutPoint: wire.OutPoint{Index: 0xffffffff}, SignatureScript: []byte{0x51, 0x51}, Sequence: 0xffffffff,
		Witness: wire.TxWitness{nonce}})
	cb.AddTxOut(&wire.TxOut{Value: 1, PkScript: []byte{0x51}})
	// commitment over the first (at most) 32 bytes of the nonce, zero padded
	var zero chainhash.Hash
	root := specHashPair(zero, *btcutil.NewTx(other).WitnessHash())
	var n32 [32]byte
	copy(n32[:], nonce)
	commit := chainhash.DoubleHashB(append(append([]byte{}, root[:]...), n32[:]...))
	cb.AddTxOut(&wire.TxOut{Value: 0, PkScript: append([]byte{0x6a, 0x24, 0xaa, 0x21, 0xa9, 0xed}, commit...)})
	blk := btcutil.NewBlock(&wire.MsgBlock{Transactions: []*wire.MsgTx{cb, other}})
	err := ValidateWitnessCommitment(blk)
	if nlen == 32 {
		vAssert(err == nil, "a correct commitment with a 32-byte nonce is accepted")
		vReach("accept")
	} else {
		vAssert(err != nil, "a coinbase witness nonce that is not exactly 32 bytes is rejected")
		vReach("reject")
	}
}
