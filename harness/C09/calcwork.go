//verif:module .
//verif:pkg blockchain/internal/workmath
package workmath

import "math/big"

// C09(3): CalcWork(bits) = floor(2^256 / (target+1)) for positive targets, 0 otherwise; >= 1 whenever the
// target is positive and below 2^256.  Integer-theory backend (division by a symbolic 256-bit value).
//verif:opts reach=pos,nonpos intmode=1
func VH_calcwork() {
	c := vNondetU32("c")
	exp := uint(vSplitU32(c>>24, 256))
	if exp > 34 {
		vCut("exponent above 34: target >= 2^256 or absurdly large")
	}
	t := CompactToBig(c)
	w := CalcWork(c)
	if t.Sign() <= 0 {
		vAssert(w.Sign() == 0, "non-positive target has zero work")
		vReach("nonpos")
		return
	}
	d := new(big.Int).Add(t, big.NewInt(1))
	two256 := new(big.Int).Lsh(big.NewInt(1), 256)
	// floor definition by multiplication: w*d <= 2^256 < (w+1)*d
	lo := new(big.Int).Mul(w, d)
	hi := new(big.Int).Add(lo, d)
	vAssert(lo.Cmp(two256) <= 0, "work*(target+1) <= 2^256")
	vAssert(hi.Cmp(two256) > 0, "(work+1)*(target+1) > 2^256")
	if t.Cmp(two256) < 0 {
		vAssert(w.Sign() > 0, "every target below 2^256 has work >= 1 (cumulative work strictly grows)")
	}
	vReach("pos")
}
