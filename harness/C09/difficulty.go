//verif:module .
//verif:pkg blockchain
package blockchain

import (
	"math/big"
	"time"


	"github.com/btcsuite/btcd/chaincfg/v2"
	"github.com/btcsuite/btcd/chainhash/v2"
)

// ---- harness implementations of the header / chain context interfaces
type vHdr struct {
	height int32
	bits   uint32
	ts     int64
	parent *vHdr
	first  *vHdr // what RelativeAncestorCtx(bpr-1) returns
	dist   int32
}

func (h *vHdr) Height() int32    { return h.height }
func (h *vHdr) Bits() uint32     { return h.bits }
func (h *vHdr) Timestamp() int64 { return h.ts }
func (h *vHdr) Parent() HeaderCtx {
	if h.parent == nil {
		return nil
	}
	return h.parent
}
func (h *vHdr) RelativeAncestorCtx(d int32) HeaderCtx {
	if h.first != nil && d == h.dist {
		return h.first
	}
	return nil
}

type vChainCtx struct {
	params   *chaincfg.Params
	bpr      int32
	min, max int64
}

func (c *vChainCtx) ChainParams() *chaincfg.Params                       { return c.params }
func (c *vChainCtx) BlocksPerRetarget() int32                            { return c.bpr }
func (c *vChainCtx) MinRetargetTimespan() int64                          { return c.min }
func (c *vChainCtx) MaxRetargetTimespan() int64                          { return c.max }
func (c *vChainCtx) VerifyCheckpoint(int32, *chainhash.Hash) bool        { return true }
func (c *vChainCtx) FindPreviousCheckpoint() (HeaderCtx, error)          { return nil, nil }

// BigToCompact is decided separately (workmath harnesses); here it is an uninterpreted function so that the
// retarget formula is compared on the 256-bit target itself.
func vStubBigToCompact(n *big.Int) uint32 { return vUFBig32("BigToCompact", n) }
func vUFBig32(tag string, n *big.Int) uint32 { return BigToCompact(n) }

// C09(5) retarget boundary: new = min(floor(old * clamp(actual, min, max) / T), powLimit), BIP94 takes old from
// the first block of the period; symbolic heights, timestamps, mantissas, clamps; exponent split concretely.
//verif:opts reach=end intmode=1 override=blockchain.BigToCompact:vStubBigToCompact novalidate=1
func VH_retarget_boundary() {
	bprs := []int32{2016}
	if vTier() == 1 {
		bprs = []int32{2016, 4, 2}
	}
	bpr := bprs[vNondetLen("bprIdx", len(bprs)-1)]
	h := vNondetI32("height")
	vAssume(h >= 0 && h < 1<<30)
	vAssume((h+1)%bpr == 0)
	T := int64(1209600)
	lim := []uint32{0x1d00ffff, 0x207fffff, 0x1e0377ae}[vNondetLen("net", 2)]
	bip94 := vNondetBool("bip94")
	params := &chaincfg.Params{PowLimit: CompactToBig(lim), PowLimitBits: lim, TargetTimespan: time.Duration(T) * time.Second,
		EnforceBIP94: bip94, ReduceMinDifficulty: vNondetBool("reduceMin"),
		MinDiffReductionTime: 20 * time.Minute}
	c := &vChainCtx{params: params, bpr: bpr, min: vNondetI64("minTs"), max: vNondetI64("maxTs")}
	vAssume(c.min > 0 && c.min <= c.max && c.max < 1<<40)
	// the compact value that the formula starts from (exponent split concretely, positive); the other
	// header's bits stay fully symbolic - they must not influence the result
	old := vNondetU32("oldBits")
	exps := []uint32{2, 3, 4, 0x1c, 0x1d, 0x20}
	if vTier() == 1 {
		exps = []uint32{1, 2, 3, 4, 5, 6, 7, 8, 9, 10, 11, 12, 13, 14, 15, 16, 17, 18, 19, 20, 21, 22, 23, 24, 25, 26, 27, 28, 29, 30, 31, 32}
	}
	vAssume(old&0x00800000 == 0 && old>>24 == exps[vNondetLen("expIdx", len(exps)-1)])
	other := vNondetU32("otherBits")
	first := &vHdr{height: h - (bpr - 1), bits: other, ts: vNondetI64("firstTs")}
	last := &vHdr{height: h, bits: old, ts: vNondetI64("lastTs"), first: first, dist: bpr - 1}
	if bip94 {
		first.bits, last.bits = old, other
	}
	vAssume(first.ts >= 0 && first.ts < 1<<40 && last.ts >= 0 && last.ts < 1<<40)
	// keep every query linear: either the mantissa is one of a few representative constants and the
	// timespans are arbitrary, or the mantissa is arbitrary and the actual timespan is one of a few
	// offsets around the clamps (the clamps themselves stay arbitrary in the first variant)
	if vNondetBool("variantMantissaConcrete") {
		mant := []uint32{0x00ffff, 0x7fffff, 0x008000, 0x0377ae}[vNondetLen("mantIdx", 3)]
		vAssume(old&0x007fffff == mant)
	} else {
		c.min, c.max = T/4, T*4
		span := []int64{-5, T/4 - 1, T / 4, T/4 + 1, T, 4*T - 1, 4 * T, 4*T + 1}[vNondetLen("spanIdx", 7)]
		vAssume(last.ts-first.ts == span)
	}
	got, err := calcNextRequiredDifficulty(last, time.Unix(vNondetI64("now"), 0), c)
	vAssert(err == nil, "retarget succeeds when the first block of the period is available")
	// ---- specification (Bitcoin Core CalculateNextWorkRequired, BIP94)
	actual := last.ts - first.ts
	adj := actual
	if adj < c.min {
		adj = c.min
	}
	if adj > c.max {
		adj = c.max
	}
	oldBits := last.bits
	if params.EnforceBIP94 {
		oldBits = first.bits
	}
	num := new(big.Int).Mul(CompactToBig(oldBits), big.NewInt(adj))
	q := new(big.Int).Quo(num, big.NewInt(T))
	if q.Cmp(params.PowLimit) > 0 {
		q = params.PowLimit
	}
	vAssert(got == vUFBig32("BigToCompact", q), "retarget == compact(min(old*clamp(actual)/T, powLimit))")
	vReach("end")
}

// C09(5) non-boundary heights: previous bits, or the testnet minimum-difficulty rules.
//verif:opts reach=same,min,walk
func VH_retarget_non_boundary() {
	bpr := []int32{2016, 4, 2}[vNondetLen("bprIdx", 2)]
	params := &chaincfg.Params{PowLimit: big.NewInt(1), PowLimitBits: vNondetU32("powLimitBits"),
		ReduceMinDifficulty: vNondetBool("reduceMin"), MinDiffReductionTime: time.Duration(vNondetLen("redMin", 60)) * time.Minute,
		PoWNoRetargeting: vNondetBool("noRetarget")}
	c := &vChainCtx{params: params, bpr: bpr, min: 1, max: 2}
	// a chain of up to 5 headers (walk-back for the testnet rule)
	n := 1 + vNondetLen("n", 1+vTier()*2)
	var prev *vHdr
	h0 := vNondetI32("h0")
	vAssume(h0 >= 0 && h0 < 1<<30)
	nodes := []*vHdr{}
	for i := 0; i < n; i++ {
		nd := &vHdr{height: h0 + int32(i), bits: vNondetU32("bits"), ts: vNondetI64("ts"), parent: prev}
		if vNondetBool("isMin") {
			nd.bits = params.PowLimitBits
		}
		nodes = append(nodes, nd)
		prev = nd
	}
	last := nodes[n-1]
	vAssume(last.ts >= 0 && last.ts < 1<<40)
	now := vNondetI64("now")
	vAssume(now >= 0 && now < 1<<40)
	got, err := calcNextRequiredDifficulty(last, time.Unix(now, 0), c)
	if params.PoWNoRetargeting {
		vAssert(err == nil && got == params.PowLimitBits, "no-retarget networks always use the pow limit")
		vReach("same")
		return
	}
	vAssume((last.height+1)%bpr != 0)
	vAssert(err == nil, "no error off the retarget boundary")
	if !params.ReduceMinDifficulty {
		vAssert(got == last.bits, "off-boundary blocks keep the previous bits")
		vReach("same")
		return
	}
	if now > last.ts+int64(params.MinDiffReductionTime/time.Second) {
		vAssert(got == params.PowLimitBits, "testnet: more than the reduction time late => minimum difficulty")
		vReach("min")
		return
	}
	// testnet walk-back: last block that is on a retarget boundary or does not have the minimum difficulty
	it := last
	for it != nil && it.height%bpr != 0 && it.bits == params.PowLimitBits {
		it = it.parent
	}
	want := params.PowLimitBits
	if it != nil {
		want = it.bits
	}
	vAssert(got == want, "testnet: walk back to the last non-minimum-difficulty block")
	vReach("walk")
}

// C09(7): CalcBlockSubsidy == 50 BTC >> (height / interval), constant for interval 0, 0 from 64 halvings on.
//verif:opts reach=end
func VH_subsidy_formula() {
	h := vNondetI32("h")
	vAssume(h >= 0)
	iv := vNondetI32("interval")
	vAssume(iv >= 0)
	p := &chaincfg.Params{SubsidyReductionInterval: iv}
	got := CalcBlockSubsidy(h, p)
	if iv == 0 {
		vAssert(got == 5000000000, "no halving when the interval is zero")
		vReach("end")
		return
	}
	halvings := h / iv
	want := int64(5000000000)
	for i := int32(0); i < 64 && i < halvings; i++ {
		want = want / 2
	}
	if halvings >= 64 {
		want = 0
	}
	vAssert(got == want, "subsidy == 50e8 halved (height/interval) times")
	vAssert(got >= 0 && got <= 5000000000, "subsidy within [0, 50 BTC]")
	vObserve("got", uint64(got))
	vReach("end")
}

// C09(7): total issuance <= 21e6 coins: the subsidy is constant on each halving epoch (previous harness), so the
// total is the finite sum over 34 epochs computed by executing the real function on each epoch's first height.
//verif:opts reach=end
func VH_subsidy_total() {
	for _, iv := range []int32{210000, 150} {
		p := &chaincfg.Params{SubsidyReductionInterval: iv}
		perBlock := int64(0) // sum over epochs of the per-block subsidy
		for epoch := int32(0); epoch < 64; epoch++ {
			perBlock += CalcBlockSubsidy(epoch*iv, p)
		}
		// each epoch has `iv` blocks; scaled to mainnet's 210000-block epochs the cap is 21e6 coins
		vAssert(perBlock*210000 <= 2100000000000000, "total subsidy <= 21e6 coins")
		vObserve("perBlock", uint64(perBlock))
	}
	vReach("end")
}

// C09(6): CalcPastMedianTime over 1..11 ancestors == element of rank n/2.
//verif:opts reach=end intmode=1
func VH_median_time() {
	n := 1 + vNondetLen("n", 7+3*vTier())
	var prev *vHdr
	ts := make([]int64, 0, n)
	for i := 0; i < n; i++ {
		t := vNondetI64("ts")
		vAssume(t >= 0 && t < 1<<40)
		ts = append(ts, t)
		prev = &vHdr{height: int32(i), ts: t, parent: prev}
	}
	// extra ancestors beyond 11 must be ignored
	m := CalcPastMedianTime(prev).Unix()
	less, leq, found := 0, 0, false
	for _, t := range ts {
		if t < m {
			less++
		}
		if t <= m {
			leq++
		}
		if t == m {
			found = true
		}
	}
	vAssert(found, "median is one of the timestamps")
	vAssert(less <= n/2 && leq > n/2, "median has rank n/2")
	vReach("end")
}
