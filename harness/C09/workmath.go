//verif:module .
//verif:pkg blockchain/internal/workmath
package workmath

import (
	"math/big"

	"github.com/btcsuite/btcd/chainhash/v2"
)

// specCompact is the definition of the "compact" target encoding (Bitcoin Core arith_uint256::SetCompact):
// value = (-1)^sign * mantissa * 256^(exponent-3), truncated towards zero for exponent < 3.
// It is written with multiplications / divisions by 256 instead of shifts.
func specCompact(c uint32, exp uint) *big.Int {
	mant := int64(c & 0x007fffff)
	v := big.NewInt(mant)
	b256 := big.NewInt(256)
	if exp >= 3 {
		for i := uint(0); i < exp-3; i++ {
			v.Mul(v, b256)
		}
	} else {
		for i := uint(0); i < 3-exp; i++ {
			v.Quo(v, b256)
		}
	}
	if c&0x00800000 != 0 {
		v.Neg(v)
	}
	return v
}

func vMaxExp() int {
	if vTier() == 1 {
		return 66 // 528-bit values: twice the width any accepted target can have; exponents 67..255 are outside the bound
	}
	return 34
}

// C09(1): CompactToBig(c) == spec value for every 32-bit c (exponent split concretely).
//verif:opts reach=end bigw=320 t_bigw=576
func VH_compact_to_big_spec() {
	c := vNondetU32("c")
	exp := uint(vSplitU32(c>>24, 256))
	if int(exp) > vMaxExp() {
		vCut("exponent above the tier bound")
	}
	got := CompactToBig(c)
	want := specCompact(c, exp)
	vAssert(got.Cmp(want) == 0, "CompactToBig == (-1)^s * mantissa * 256^(e-3)")
	vReach("end")
}

// C09(2): BigToCompact(CompactToBig(c)) is the canonical form of c; canonical c are fixed points;
// the value is preserved; the sign bit is set only for negative values; bit 23 is never a mantissa bit.
//verif:opts reach=end,canonical bigw=320 t_bigw=576
func VH_compact_roundtrip() {
	c := vNondetU32("c")
	exp := uint(vSplitU32(c>>24, 256))
	if int(exp) > vMaxExp() {
		vCut("exponent above the tier bound")
	}
	n := CompactToBig(c)
	c2 := BigToCompact(n)
	n2 := CompactToBig(c2)
	vAssert(n2.Cmp(n) == 0, "CompactToBig(BigToCompact(n)) == n for every n in the image of CompactToBig")
	if c&0x00800000 == 0 && c&0x007fffff >= 0x008000 && exp >= 3 {
		vAssert(c2 == c, "canonical compact values are fixed points")
		vReach("canonical")
	}
	vAssert(c2&0x00800000 == 0 || n.Sign() < 0, "sign bit only for negative values")
	vAssert(n.Sign() != 0 || c2 == 0, "zero encodes as 0")
	if n.Sign() > 0 {
		// canonical: top mantissa byte non-zero unless the number needs fewer than 3 bytes; bit 23 clear
		vAssert(c2&0x00800000 == 0, "positive values never have bit 23 set")
		vAssert(c2&0x007fffff != 0, "non-zero value has non-zero mantissa")
	}
	vObserve("c2", uint64(c2))
	vReach("end")
}

// C09(2b): BigToCompact on an arbitrary (not necessarily canonical) 256-bit magnitude: the decoded result
// keeps exactly the top three significant bytes (so it never exceeds n and loses less than 2^-15 relative).
//verif:opts reach=end bigw=320
func VH_big_to_compact_truncation() {
	raw := vNondetBytes("n", 32)
	n := new(big.Int).SetBytes(raw)
	neg := vNondetBool("neg")
	if neg {
		n.Neg(n)
	}
	c := BigToCompact(n)
	back := CompactToBig(c)
	vAssert(back.Sign() == n.Sign(), "sign preserved")
	vAssert(back.CmpAbs(n) <= 0, "|decoded| <= |n| (truncation only)")
	// difference is below 2^(8*(len-2)) where len = byte length: i.e. |n| - |back| < |n| / 2^15 rounded up
	diff := new(big.Int).Sub(new(big.Int).Abs(n), new(big.Int).Abs(back))
	bound := new(big.Int).Rsh(new(big.Int).Abs(n), 15)
	vAssert(diff.Cmp(bound) <= 0, "relative truncation error at most 2^-15")
	vReach("end")
}

// C09(4): HashToBig is the little-endian interpretation of the 32 hash bytes.
//verif:opts reach=end intmode=1
func VH_hash_to_big() {
	var h chainhash.Hash
	copy(h[:], vNondetBytes("h", 32))
	got := HashToBig(&h)
	want := new(big.Int)
	b256 := big.NewInt(256)
	for i := 31; i >= 0; i-- {
		want.Mul(want, b256)
		want.Add(want, big.NewInt(int64(h[i])))
	}
	vAssert(got.Cmp(want) == 0, "HashToBig == sum h[i]*256^i")
	vReach("end")
}
