//verif:module .
//verif:pkg blockchain
package blockchain

import "github.com/btcsuite/btcd/wire/v2"

func vHeaderWithBits(bits uint32) *wire.BlockHeader { return &wire.BlockHeader{Bits: bits} }

// C09 / C01(3): checkProofOfWork accepts iff 0 < target <= powLimit and (NoPoWCheck or hash <= target).
//verif:opts reach=accept,reject bigw=320
func VH_check_pow() {
	bits := vNondetU32("bits")
	e := uint(vSplitU32(bits>>24, 256))
	if e > 34 {
		vCut("exponent above 34")
	}
	limBits := []uint32{0x1d00ffff, 0x207fffff, 0x1e0377ae}[vNondetLen("net", 2)]
	lim := CompactToBig(limBits)
	target := CompactToBig(bits)
	err := checkProofOfWork(vHeaderWithBits(bits), lim, BFNoPoWCheck)
	ok := target.Sign() > 0 && target.Cmp(lim) <= 0
	vAssert((err == nil) == ok, "accept iff 0 < target <= powLimit (hash check disabled)")
	if err == nil {
		vReach("accept")
	} else {
		vReach("reject")
	}
}

