//verif:module .
//verif:pkg blockchain
package blockchain

import (
	"container/list"
	"math/big"

	"github.com/btcsuite/btcd/btcutil/v2"
	"github.com/btcsuite/btcd/chaincfg/v2"
	"github.com/btcsuite/btcd/wire/v2"
)

// The database-backed steps (connecting / disconnecting block contents, validation against the UTXO set, index
// flushes) are environment here: they are replaced, in the encoding AND in the native replay (noverride=), by stubs
// that record the request and move the tip as the real ones do on success.  What is decided is the switching logic:
// which chain the node asks to make active.
var vSw struct {
	reorgs  int
	detach  []*blockNode
	attach  []*blockNode
	connect []*blockNode
}

func vSwReset() {
	vSw.reorgs, vSw.detach, vSw.attach, vSw.connect = 0, nil, nil, nil
}

func vStubReorganizeChain(b *BlockChain, detachNodes, attachNodes *list.List) error {
	vSw.reorgs++
	vSw.detach = append(vSw.detach, vListNodes(detachNodes)...)
	vSw.attach = append(vSw.attach, vListNodes(attachNodes)...)
	if attachNodes.Len() > 0 {
		b.bestChain.SetTip(attachNodes.Back().Value.(*blockNode))
	} else if detachNodes.Len() > 0 {
		b.bestChain.SetTip(detachNodes.Back().Value.(*blockNode).parent)
	}
	return nil
}

func vStubVerifyReorg(b *BlockChain, detachNodes, attachNodes *list.List) ([]*btcutil.Block, []*btcutil.Block, [][]SpentTxOut, error) {
	return nil, nil, nil, nil
}
func vStubFlushIndex(bi *blockIndex) error { return nil }
func vStubConnectBlock(b *BlockChain, node *blockNode, block *btcutil.Block, stxos []SpentTxOut) error {
	vSw.connect = append(vSw.connect, node)
	b.bestChain.SetTip(node)
	return nil
}
func vStubCheckConnectBlock(b *BlockChain, node *blockNode, block *btcutil.Block, view *UtxoViewpoint, stxos *[]SpentTxOut) error {
	return nil
}
func vStubConnectTxs(s *utxoCache, block *btcutil.Block, stxos *[]SpentTxOut) error { return nil }

// a branch of n valid nodes on top of parent, each adding symbolic work in [1,200]
func vMkWorkNodes(b *BlockChain, parent *blockNode, n int, label byte) []*blockNode {
	out := make([]*blockNode, 0, n)
	for i := 0; i < n; i++ {
		w := int64(vNondetU8("work"))
		vAssume(w >= 1 && w <= 200)
		nd := &blockNode{parent: parent, status: statusDataStored | statusValid}
		nd.workSum = big.NewInt(w)
		if parent != nil {
			nd.height = parent.height + 1
			nd.workSum = new(big.Int).Add(parent.workSum, nd.workSum)
		}
		nd.hash[0] = label
		nd.hash[1] = byte(nd.height)
		nd.buildAncestor()
		b.index.AddNode(nd)
		out = append(out, nd)
		parent = nd
	}
	return out
}

func vSameNodes(a, b []*blockNode) bool {
	if len(a) != len(b) {
		return false
	}
	for i := range a {
		if a[i] != b[i] {
			return false
		}
	}
	return true
}

func vReversed(a []*blockNode) []*blockNode {
	out := make([]*blockNode, len(a))
	for i := range a {
		out[len(a)-1-i] = a[i]
	}
	return out
}

// C02(1): the switching decision of connectBestChain for a newly accepted block, on every tree with one fork point
// (main branch 1..2 (thorough 3) past the fork, side branch 0..2 (3) below the new block) and every assignment of
// work to the blocks: a block on the tip is connected; a side-chain block with work <= the tip's changes nothing
// (ties stay with the chain that was active first); with strictly more work the node detaches exactly the main
// branch above the fork (tip first) and attaches exactly the side branch (fork side first).
//verif:opts reach=extend,stay,reorg noverride=chain.go:BlockChain.reorganizeChain:vStubReorganizeChain;blockindex.go:blockIndex.flushToDB:vStubFlushIndex;chain.go:BlockChain.connectBlock:vStubConnectBlock;validate.go:BlockChain.checkConnectBlock:vStubCheckConnectBlock;utxocache.go:utxoCache.connectTransactions:vStubConnectTxs
func VH_connect_best_chain() {
	vSwReset()
	b := &BlockChain{index: newBlockIndex(nil, &chaincfg.Params{})}
	common := vMkWorkNodes(b, nil, 1+vNondetLen("common", 1), 1)
	fork := common[len(common)-1]
	main := vMkWorkNodes(b, fork, 1+vNondetLen("mainLen", 1+vTier()), 2)
	b.bestChain = newChainView(main[len(main)-1])
	oldTip := b.bestChain.Tip()
	var side []*blockNode
	onTip := vNondetBool("extendsTip")
	if onTip {
		side = vMkWorkNodes(b, oldTip, 1, 3)
	} else {
		side = vMkWorkNodes(b, fork, 1+vNondetLen("sideLen", 2+vTier()), 3)
	}
	node := side[len(side)-1]
	node.status = statusDataStored // freshly accepted: stored, not yet validated
	msg := &wire.MsgBlock{Header: wire.BlockHeader{PrevBlock: node.parent.hash}}
	msg.AddTransaction(wire.NewMsgTx(1))
	block := btcutil.NewBlock(msg)
	isMain, err := b.connectBestChain(node, block, BFNone)
	vAssert(err == nil, "no error when the environment steps succeed")
	switch {
	case onTip:
		vAssert(isMain && vSw.reorgs == 0 && len(vSw.connect) == 1 && vSw.connect[0] == node, "a block on the tip is connected")
		vAssert(b.bestChain.Tip() == node && node.status.KnownValid(), "it becomes the tip and is marked valid")
		vReach("extend")
	case node.workSum.Cmp(oldTip.workSum) <= 0:
		vAssert(!isMain && vSw.reorgs == 0 && len(vSw.connect) == 0, "not enough work (or a tie): nothing happens")
		vAssert(b.bestChain.Tip() == oldTip, "tip unchanged")
		vReach("stay")
	default:
		vAssert(isMain && vSw.reorgs == 1 && len(vSw.connect) == 0, "more work: exactly one reorganisation")
		vAssert(vSameNodes(vSw.detach, vReversed(main)), "detaches the main branch above the fork, tip first")
		vAssert(vSameNodes(vSw.attach, side), "attaches the side branch, fork side first")
		vReach("reorg")
	}
}

// C02(4): ReconsiderBlock on a side branch that an earlier InvalidateBlock marked (target: validate-failed, its
// descendants: invalid-ancestor): all marks on the branch are cleared; the node reorganises to the branch iff its
// tip has strictly more work than the active tip - a tie leaves the first-active chain in place.
//verif:opts reach=stay,reorg noverride=chain.go:BlockChain.reorganizeChain:vStubReorganizeChain;blockindex.go:blockIndex.flushToDB:vStubFlushIndex;chain.go:BlockChain.verifyReorganizationValidity:vStubVerifyReorg
func VH_reconsider_block() {
	vSwReset()
	b := &BlockChain{index: newBlockIndex(nil, &chaincfg.Params{})}
	common := vMkWorkNodes(b, nil, 1+vNondetLen("common", 1), 1)
	fork := common[len(common)-1]
	main := vMkWorkNodes(b, fork, 1+vNondetLen("mainLen", 1+vTier()), 2)
	side := vMkWorkNodes(b, fork, 1+vNondetLen("sideLen", 1+vTier()), 3)
	b.bestChain = newChainView(main[len(main)-1])
	oldTip := b.bestChain.Tip()
	k := vNondetLen("target", len(side)-1)
	side[k].status = statusDataStored | statusValidateFailed
	for i := k + 1; i < len(side); i++ {
		side[i].status = statusDataStored | statusInvalidAncestor
	}
	err := b.ReconsiderBlock(&side[k].hash)
	vAssert(err == nil, "reconsidering succeeds")
	for i := range side {
		vAssert(!side[i].status.KnownInvalid(), "no block of the reconsidered branch stays marked invalid")
	}
	for _, n := range main {
		vAssert(n.status.KnownValid(), "main chain statuses untouched")
	}
	sideTip := side[len(side)-1]
	if sideTip.workSum.Cmp(oldTip.workSum) > 0 {
		vAssert(vSw.reorgs == 1 && vSameNodes(vSw.detach, vReversed(main)) && vSameNodes(vSw.attach, side),
			"strictly more work: reorganise to the reconsidered branch (detach main tip first, attach side fork first)")
		vReach("reorg")
	} else {
		vAssert(vSw.reorgs == 0 && b.bestChain.Tip() == oldTip, "less or equal work: the active chain stays (ties go to the first-active chain)")
		vReach("stay")
	}
}

// C02(5): InvalidateBlock of an active-chain block: every active block from the target up is detached (tip first)
// and marked invalid (target: failed, above it: invalid ancestor); afterwards the tip is the most-work tip among the
// chains without an invalid block - the parent of the target, or the side branch when that has strictly more work
// than the parent (on a tie either is accepted: the first-active one is a fact of the history, not of this state).
//verif:opts reach=parent,side noverride=chain.go:BlockChain.reorganizeChain:vStubReorganizeChain;blockindex.go:blockIndex.flushToDB:vStubFlushIndex
func VH_invalidate_active_block() {
	vSwReset()
	b := &BlockChain{index: newBlockIndex(nil, &chaincfg.Params{})}
	common := vMkWorkNodes(b, nil, 2, 1)
	fork := common[len(common)-1]
	main := vMkWorkNodes(b, fork, 1+vNondetLen("mainLen", 1+vTier()), 2)
	side := vMkWorkNodes(b, fork, 1+vNondetLen("sideLen", 1+vTier()), 3)
	b.bestChain = newChainView(main[len(main)-1])
	k := vNondetLen("target", len(main)-1)
	err := b.InvalidateBlock(&main[k].hash)
	vAssert(err == nil, "invalidation succeeds")
	vAssert(main[k].status&statusValidateFailed != 0 && !main[k].status.KnownValid(), "target marked failed")
	for i := k + 1; i < len(main); i++ {
		vAssert(main[i].status&statusInvalidAncestor != 0 && !main[i].status.KnownValid(), "descendants marked invalid-ancestor")
	}
	for _, n := range side {
		vAssert(n.status.KnownValid(), "side branch untouched")
	}
	newBase := main[k].parent
	sideTip := side[len(side)-1]
	vAssert(vSw.reorgs >= 1 && vSameNodes(vSw.detach[:len(main)-k], vReversed(main[k:])), "the invalidated suffix is detached, tip first")
	switch c := sideTip.workSum.Cmp(newBase.workSum); {
	case c > 0:
		vAssert(b.bestChain.Tip() == sideTip, "the side branch now has the most work and becomes active")
		vReach("side")
	case c < 0:
		vAssert(b.bestChain.Tip() == newBase, "the parent of the invalidated block is the tip")
		vReach("parent")
	default:
		// which of the two became active first is a fact of the delivery history, which this one-step pre-state
		// does not carry (and btcd does not record): either most-work tip is accepted here
		vAssert(b.bestChain.Tip() == newBase || b.bestChain.Tip() == sideTip, "on a tie the tip is one of the most-work valid tips")
	}
}

// Go's map iteration order is arbitrary, so the order in which InactiveTips lists the side-chain tips is
// environment: the stub lists the same tips (recomputed, sorted by label) rotated by an arbitrary amount.
func vStubInactiveTips(bi *blockIndex, bestChain *chainView) []*blockNode {
	var tips []*blockNode
	for _, n := range bi.index {
		if bestChain.Contains(n) {
			continue
		}
		isParent := false
		for _, m := range bi.index {
			if m.parent == n && !bestChain.Contains(m) {
				isParent = true
			}
		}
		if !isParent {
			tips = append(tips, n)
		}
	}
	for i := 0; i < len(tips); i++ { // selection sort by (label, height): deterministic whatever the map order
		for j := i + 1; j < len(tips); j++ {
			if tips[j].hash[0] < tips[i].hash[0] || (tips[j].hash[0] == tips[i].hash[0] && tips[j].hash[1] < tips[i].hash[1]) {
				tips[i], tips[j] = tips[j], tips[i]
			}
		}
	}
	if len(tips) < 2 {
		return tips
	}
	r := vNondetLen("tipOrder", len(tips)-1)
	return append(append([]*blockNode{}, tips[r:]...), tips[:r]...)
}

// C02(4'): ReconsiderBlock when the reconsidered block has TWO descendant branches: whatever order the tips are
// listed in, the node ends on the most-work chain that again includes the block (or stays when the active chain has
// at least as much work).
//verif:opts reach=stay,reorg noverride=chain.go:BlockChain.reorganizeChain:vStubReorganizeChain;blockindex.go:blockIndex.flushToDB:vStubFlushIndex;chain.go:BlockChain.verifyReorganizationValidity:vStubVerifyReorg;blockindex.go:blockIndex.InactiveTips:vStubInactiveTips
func VH_reconsider_block_two_branches() {
	vSwReset()
	b := &BlockChain{index: newBlockIndex(nil, &chaincfg.Params{})}
	common := vMkWorkNodes(b, nil, 2, 1)
	fork := common[len(common)-1]
	main := vMkWorkNodes(b, fork, 1+vNondetLen("mainLen", 1), 2)
	target := vMkWorkNodes(b, fork, 1, 3)[0]
	brA := vMkWorkNodes(b, target, 1+vNondetLen("aLen", 1), 4)
	brB := vMkWorkNodes(b, target, 1, 5)
	b.bestChain = newChainView(main[len(main)-1])
	oldTip := b.bestChain.Tip()
	target.status = statusDataStored | statusValidateFailed
	for _, n := range append(append([]*blockNode{}, brA...), brB...) {
		n.status = statusDataStored | statusInvalidAncestor
	}
	err := b.ReconsiderBlock(&target.hash)
	vAssert(err == nil, "reconsidering succeeds")
	tipA, tipB := brA[len(brA)-1], brB[0]
	best := tipA
	if tipB.workSum.Cmp(tipA.workSum) > 0 {
		best = tipB
	}
	vAssert(!target.status.KnownInvalid() && !tipA.status.KnownInvalid() && !tipB.status.KnownInvalid(), "both branches are valid again")
	if best.workSum.Cmp(oldTip.workSum) > 0 {
		vAssert(vSw.reorgs == 1, "a reconsidered branch with more work than the active chain becomes active")
		if tipA.workSum.Cmp(tipB.workSum) != 0 {
			vAssert(b.bestChain.Tip() == best, "and it is the most-work branch through the reconsidered block")
		}
		vReach("reorg")
	} else {
		vAssert(vSw.reorgs == 0 && b.bestChain.Tip() == oldTip, "the active chain stays when no reconsidered branch has more work")
		vReach("stay")
	}
}

// C02(5'): InvalidateBlock of an active-chain block when a SIDE block hangs off the invalidated part (a child of an
// active block at or above the target that is not itself active): that side block descends from the invalid block
// and must not count as a valid tip - afterwards it is marked invalid, and the tip is the most-work tip among the
// chains without an invalid block (the target's parent, or the side branch from the fork when that has strictly
// more work), whatever work the stale side block carries.
//verif:opts reach=parent,side noverride=chain.go:BlockChain.reorganizeChain:vStubReorganizeChain;blockindex.go:blockIndex.flushToDB:vStubFlushIndex
func VH_invalidate_with_side_block_above_target() {
	vSwReset()
	b := &BlockChain{index: newBlockIndex(nil, &chaincfg.Params{})}
	common := vMkWorkNodes(b, nil, 2, 1)
	fork := common[len(common)-1]
	main := vMkWorkNodes(b, fork, 3, 2)
	side := vMkWorkNodes(b, fork, 1+vNondetLen("sideLen", 1), 3)
	stale := vMkWorkNodes(b, main[1], 1, 4)[0] // child of an active block, not active itself
	b.bestChain = newChainView(main[len(main)-1])
	k := vNondetLen("target", 1)
	err := b.InvalidateBlock(&main[k].hash)
	vAssert(err == nil, "invalidation succeeds")
	newBase := main[k].parent
	sideTip := side[len(side)-1]
	switch c := sideTip.workSum.Cmp(newBase.workSum); {
	case c > 0:
		vAssert(b.bestChain.Tip() == sideTip, "the valid side branch has the most work and becomes active")
		vReach("side")
	case c < 0:
		vAssert(b.bestChain.Tip() == newBase, "the parent of the invalidated block is the tip")
		vReach("parent")
	default:
		vAssert(b.bestChain.Tip() == newBase || b.bestChain.Tip() == sideTip, "on a tie the tip is one of the most-work valid tips")
	}
	vAssert(stale.status.KnownInvalid(), "a side block descending from the invalidated block is marked invalid")
}
