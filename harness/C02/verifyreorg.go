//verif:module .
//verif:pkg blockchain
package blockchain

import (
	"container/list"
	"time"

	"github.com/btcsuite/btcd/btcutil/v2"
	"github.com/btcsuite/btcd/chaincfg/v2"
	"github.com/btcsuite/btcd/database"
	"github.com/btcsuite/btcd/wire/v2"
)

// database and validation are environment here: blocks are served from a harness table, the connect check fails
// with a rule error for the blocks the harness designates
type vNullDB struct{ database.DB }

func (d *vNullDB) View(fn func(tx database.Tx) error) error { return fn(nil) }

var vVR struct {
	blocks map[*blockNode]*btcutil.Block
	bad    map[*blockNode]bool
}

func vStubFetchBlockByNode(dbTx database.Tx, node *blockNode) (*btcutil.Block, error) {
	return vVR.blocks[node], nil
}
func vStubFetchInputsNoop(view *UtxoViewpoint, cache *utxoCache, block *btcutil.Block) error { return nil }
func vStubFetchSpendJournal(dbTx database.Tx, block *btcutil.Block) ([]SpentTxOut, error) { return nil, nil }
func vStubCheckConnectSome(b *BlockChain, node *blockNode, block *btcutil.Block, view *UtxoViewpoint, stxos *[]SpentTxOut) error {
	if vVR.bad[node] {
		return ruleError(ErrBadCoinbaseValue, "stub: invalid block")
	}
	return nil
}

// C02(8): a reorganisation attempt that meets an invalid block: detach 1 block, attach 2..3 (thorough 4) blocks of
// which an arbitrary one fails the connect check and an arbitrary prefix is already known valid: exactly the failing
// block is marked validate-failed and exactly the blocks AFTER it are marked invalid-ancestor; the valid blocks in
// front of it are not tainted (they are marked valid), so that a later block built on them can still win; without a
// failing block every attached block ends up marked valid and the block lists are returned in order.
//verif:opts reach=fails,succeeds noverride=chainio.go:dbFetchBlockByNode:vStubFetchBlockByNode;chainio.go:dbFetchSpendJournalEntry:vStubFetchSpendJournal;validate.go:BlockChain.checkConnectBlock:vStubCheckConnectSome;utxoviewpoint.go:UtxoViewpoint.fetchInputUtxos:vStubFetchInputsNoop
func VH_verify_reorganization_validity_marks() {
	params := &chaincfg.Params{}
	b := &BlockChain{chainParams: params, index: newBlockIndex(nil, params), db: &vNullDB{}}
	vVR.blocks = make(map[*blockNode]*btcutil.Block)
	vVR.bad = make(map[*blockNode]bool)
	mk := func(parent *blockNode, nonce uint32) *blockNode {
		h := &wire.BlockHeader{Version: 4, Bits: 0x207fffff, Nonce: nonce, Timestamp: time.Unix(1600000000, 0)}
		if parent != nil {
			h.PrevBlock = parent.hash
		}
		n := newBlockNode(h, parent)
		n.status = statusDataStored
		b.index.AddNode(n)
		msg := &wire.MsgBlock{Header: *h}
		msg.AddTransaction(wire.NewMsgTx(1)) // coinbase placeholder: nothing is spent
		vVR.blocks[n] = btcutil.NewBlock(msg)
		return n
	}
	fork := mk(nil, 1)
	fork.status |= statusValid
	tip := mk(fork, 2)
	tip.status |= statusValid
	b.bestChain = newChainView(tip)
	nAttach := 2 + vNondetLen("attachLen", 1+vTier())
	attach := make([]*blockNode, nAttach)
	prev := fork
	knownValid := vNondetLen("knownValidPrefix", nAttach)
	for i := range attach {
		attach[i] = mk(prev, uint32(10+i))
		if i < knownValid {
			attach[i].status |= statusValid
		}
		prev = attach[i]
	}
	failAt := vNondetLen("failAt", nAttach) // nAttach: none fails
	if failAt < nAttach {
		vVR.bad[attach[failAt]] = true
	}
	detachL, attachL := list.New(), list.New()
	detachL.PushBack(tip)
	for _, n := range attach {
		attachL.PushBack(n)
	}
	_, attachBlocks, _, err := b.verifyReorganizationValidity(detachL, attachL)
	// a block already known valid is not re-checked, so a designated failure inside the known-valid prefix is moot
	effective := failAt < nAttach && failAt >= knownValid
	if !effective {
		vAssert(err == nil && len(attachBlocks) == nAttach, "every block checks out: the attach blocks are returned in order")
		for i, n := range attach {
			vAssert(n.status.KnownValid() && !n.status.KnownInvalid(), "every attached block is marked valid")
			vAssert(attachBlocks[i] == vVR.blocks[n], "blocks returned in attach order")
		}
		vReach("succeeds")
		return
	}
	vAssert(err != nil, "the reorganisation is refused")
	for i, n := range attach {
		switch {
		case i < failAt:
			vAssert(!n.status.KnownInvalid() && n.status.KnownValid(), "valid blocks in front of the invalid one are not tainted")
		case i == failAt:
			vAssert(n.status&statusValidateFailed != 0 && !n.status.KnownValid(), "the failing block is marked validate-failed")
		default:
			vAssert(n.status&statusInvalidAncestor != 0, "blocks after the invalid one are marked invalid-ancestor")
		}
	}
	vAssert(tip.status.KnownValid() && !tip.status.KnownInvalid() && b.bestChain.Tip() == tip, "the active chain is untouched")
	vReach("fails")
}
