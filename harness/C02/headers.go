//verif:module .
//verif:pkg blockchain
package blockchain

import (
	"math/big"
	"time"

	"github.com/btcsuite/btcd/chaincfg/v2"
	"github.com/btcsuite/btcd/wire/v2"
)

// header sanity (proof of work, time) and header context (difficulty, median time, versions, checkpoints) are
// decided by their own harnesses (C01 / C09); here they accept, so that the index / best-header bookkeeping of
// header delivery is reached
func vStubHeaderSanity(header *wire.BlockHeader, powLimit *big.Int, timeSource MedianTimeSource, flags BehaviorFlags) error {
	return nil
}
func vStubHeaderContext(header *wire.BlockHeader, prevNode HeaderCtx, flags BehaviorFlags, c ChainCtx, skipCheckpoint bool) error {
	return nil
}

// C02(7): header deliveries and the block index: a valid header for a block on top of a known valid parent, where
// the block is either new or ALREADY in the index (delivered as a full block before its header, connected or on a
// side chain, in the best-header view or not): an existing index entry is never replaced or downgraded (same node,
// same status, index size unchanged), a new one is added header-only under its parent, and the best-header view
// moves to it iff it extends the header tip or has strictly more work than it (ties stay).
//verif:opts reach=known,new noverride=validate.go:CheckBlockHeaderSanity:vStubHeaderSanity;validate.go:CheckBlockHeaderContext:vStubHeaderContext;blockindex.go:blockIndex.flushToDB:vStubFlushIndex
func VH_header_delivery_keeps_index_entries() {
	params := &chaincfg.Params{PowLimit: big.NewInt(1)}
	b := &BlockChain{chainParams: params, index: newBlockIndex(nil, params), timeSource: NewMedianTime()}
	mk := func(parent *blockNode, nonce uint32, bits uint32) (*blockNode, *wire.BlockHeader) {
		h := &wire.BlockHeader{Version: 4, Bits: bits, Nonce: nonce, Timestamp: time.Unix(1600000000, 0)}
		if parent != nil {
			h.PrevBlock = parent.hash
		}
		n := newBlockNode(h, parent)
		n.status = statusDataStored | statusValid
		return n, h
	}
	g, _ := mk(nil, 1, 0x207fffff)
	b.index.AddNode(g)
	// current header tip: one block on top of g (easy or hard target: its work differs)
	tipBits := []uint32{0x207fffff, 0x1f7fffff}[vNondetLen("tipBits", 1)]
	t1, _ := mk(g, 2, tipBits)
	b.index.AddNode(t1)
	b.bestHeader = newChainView(t1)
	b.bestChain = newChainView(t1)
	// the delivered header: on top of the header tip, or a sibling of it (side chain) with less / equal / more work
	onTip := vNondetBool("extendsTip")
	parent := g
	if onTip {
		parent = t1
	}
	bits := []uint32{0x207fffff, 0x1f7fffff}[vNondetLen("bits", 1)]
	node, hdr := mk(parent, 3, bits)
	known := vNondetBool("blockAlreadyIndexed")
	if known {
		if vNondetBool("onlyStored") {
			node.status = statusDataStored
		}
		b.index.AddNode(node)
	}
	before := len(b.index.index)
	statusBefore := node.status
	isMain, err := b.maybeAcceptBlockHeader(hdr, BFNone, true)
	vAssert(err == nil, "a valid header is accepted")
	got := b.index.LookupNode(&node.hash)
	if known {
		vAssert(got == node, "the existing index entry is kept (not replaced by a header-only node)")
		vAssert(node.status == statusBefore, "and keeps its status")
		vAssert(len(b.index.index) == before, "index size unchanged")
		vReach("known")
	} else {
		vAssert(got != nil && got.parent == parent && got.height == parent.height+1, "a new entry is linked under its parent")
		vAssert(got.status == statusHeaderStored, "and is header-only")
		vAssert(len(b.index.index) == before+1, "exactly one entry added")
		vReach("new")
	}
	wantMain := onTip || got.workSum.Cmp(t1.workSum) > 0
	vAssert(isMain == wantMain, "main-chain verdict: extends the header tip or has strictly more work")
	if wantMain {
		vAssert(b.bestHeader.Tip() == got, "best-header view moves to it")
	} else {
		vAssert(b.bestHeader.Tip() == t1, "best-header view unchanged (ties stay)")
	}
}
