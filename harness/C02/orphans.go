//verif:module .
//verif:pkg blockchain
package blockchain

import (
	"github.com/btcsuite/btcd/btcutil/v2"
	"github.com/btcsuite/btcd/chainhash/v2"
	"github.com/btcsuite/btcd/wire/v2"
)

var vAccepted []*btcutil.Block

// acceptance itself (validation, database) is environment: the stub records the request
func vStubMaybeAccept(b *BlockChain, block *btcutil.Block, flags BehaviorFlags) (bool, error) {
	vAccepted = append(vAccepted, block)
	return true, nil
}

func vOrphanBlock(prev chainhash.Hash, nonce uint32) *btcutil.Block {
	return btcutil.NewBlock(&wire.MsgBlock{Header: wire.BlockHeader{PrevBlock: prev, Nonce: nonce}})
}

// C02(6): delivery of children before parents: when a block P is accepted, processOrphans hands every orphan that
// descends from P (through other orphans) to acceptance exactly once, parents before children, and removes exactly
// those from both orphan maps; orphans that still miss an ancestor stay.  Every forest of up to 3 (thorough 4)
// orphans over {P, an unknown block, earlier orphans} and every insertion order of siblings.
//verif:opts reach=end noverride=accept.go:BlockChain.maybeAcceptBlock:vStubMaybeAccept
func VH_process_orphans() {
	vAccepted = nil
	b := &BlockChain{orphans: make(map[chainhash.Hash]*orphanBlock), prevOrphans: make(map[chainhash.Hash][]*orphanBlock)}
	var pHash, xHash chainhash.Hash
	pHash[0], xHash[0] = 0xaa, 0xbb
	n := 1 + vNondetLen("orphans", 2+vTier())
	blocks := make([]*btcutil.Block, n)
	parent := make([]int, n) // -1: P, -2: unknown block, j: orphan j
	for i := 0; i < n; i++ {
		c := vNondetLen("parent", 1+i) // 0: P, 1: unknown, 2+j: orphan j (j < i)
		prev := pHash
		parent[i] = -1
		if c == 1 {
			prev, parent[i] = xHash, -2
		} else if c >= 2 {
			prev, parent[i] = *blocks[c-2].Hash(), c-2
		}
		blocks[i] = vOrphanBlock(prev, uint32(i))
	}
	// siblings can have reached the pool in any order: insert in a symbolic rotation of the creation order
	rot := vNondetLen("rotation", n-1)
	for k := 0; k < n; k++ {
		blk := blocks[(k+rot)%n]
		ob := &orphanBlock{block: blk}
		b.orphans[*blk.Hash()] = ob
		prev := blk.MsgBlock().Header.PrevBlock
		b.prevOrphans[prev] = append(b.prevOrphans[prev], ob)
	}
	err := b.processOrphans(&pHash, BFNone)
	vAssert(err == nil, "no error")
	// reference: which orphans descend from P
	reach := make([]bool, n)
	for i := 0; i < n; i++ {
		reach[i] = parent[i] == -1 || (parent[i] >= 0 && reach[parent[i]])
	}
	pos := make([]int, n)
	for i := range pos {
		pos[i] = -1
	}
	for k, blk := range vAccepted {
		for i := range blocks {
			if blocks[i] == blk {
				vAssert(pos[i] == -1, "no orphan is handed to acceptance twice")
				pos[i] = k
			}
		}
	}
	for i := 0; i < n; i++ {
		_, inPool := b.orphans[*blocks[i].Hash()]
		if reach[i] {
			vAssert(pos[i] >= 0, "every orphan descending from the accepted block is processed")
			vAssert(!inPool, "and leaves the orphan pool")
			if parent[i] >= 0 {
				vAssert(pos[parent[i]] >= 0 && pos[parent[i]] < pos[i], "parents are accepted before their children")
			}
		} else {
			vAssert(pos[i] == -1 && inPool, "orphans still missing an ancestor stay in the pool")
		}
	}
	cnt := 0
	for prev, l := range b.prevOrphans {
		for _, ob := range l {
			vAssert(ob != nil && ob.block.MsgBlock().Header.PrevBlock == prev, "dependency index entries are filed under their parent")
			_, ok := b.orphans[*ob.block.Hash()]
			vAssert(ok, "dependency index only lists pooled orphans")
			cnt++
		}
	}
	vAssert(cnt == len(b.orphans), "both orphan maps hold the same blocks")
	vReach("end")
}

var vInvalidOrphans map[chainhash.Hash]bool

// acceptance fails with a rule error for the blocks the harness designates as invalid
func vStubMaybeAcceptSome(b *BlockChain, block *btcutil.Block, flags BehaviorFlags) (bool, error) {
	if vInvalidOrphans[*block.Hash()] {
		return false, ruleError(ErrBadCoinbaseValue, "stub: invalid block")
	}
	vAccepted = append(vAccepted, block)
	return true, nil
}

// C02(6'): an invalid orphan does not hide valid ones: some orphans (arbitrary subset) fail acceptance with a rule
// error when their turn comes; every orphan that descends from the accepted block through valid orphans only is
// still accepted (whatever the order the siblings sit in the pool), so that the outcome does not depend on the
// delivery order; descendants of an invalid orphan stay orphans.
//verif:opts reach=end noverride=accept.go:BlockChain.maybeAcceptBlock:vStubMaybeAcceptSome
func VH_process_orphans_with_invalid() {
	vAccepted = nil
	vInvalidOrphans = make(map[chainhash.Hash]bool)
	b := &BlockChain{orphans: make(map[chainhash.Hash]*orphanBlock), prevOrphans: make(map[chainhash.Hash][]*orphanBlock)}
	var pHash chainhash.Hash
	pHash[0] = 0xaa
	n := 2 + vNondetLen("orphans", 1+vTier())
	blocks := make([]*btcutil.Block, n)
	parent := make([]int, n) // -1: P, j: orphan j
	invalid := make([]bool, n)
	for i := 0; i < n; i++ {
		c := vNondetLen("parent", i) // 0: P, 1+j: orphan j (j < i)
		prev := pHash
		parent[i] = -1
		if c >= 1 {
			prev, parent[i] = *blocks[c-1].Hash(), c-1
		}
		blocks[i] = vOrphanBlock(prev, uint32(i))
		invalid[i] = vNondetBool("invalid")
		if invalid[i] {
			vInvalidOrphans[*blocks[i].Hash()] = true
		}
	}
	rot := vNondetLen("rotation", n-1)
	for k := 0; k < n; k++ {
		blk := blocks[(k+rot)%n]
		ob := &orphanBlock{block: blk}
		b.orphans[*blk.Hash()] = ob
		prev := blk.MsgBlock().Header.PrevBlock
		b.prevOrphans[prev] = append(b.prevOrphans[prev], ob)
	}
	_ = b.processOrphans(&pHash, BFNone)
	// reference: an orphan is connectable iff it is valid and its parent is P or a connectable orphan
	ok := make([]bool, n)
	for i := 0; i < n; i++ {
		ok[i] = !invalid[i] && (parent[i] == -1 || ok[parent[i]])
	}
	for i := 0; i < n; i++ {
		accepted := false
		for _, blk := range vAccepted {
			accepted = accepted || blk == blocks[i]
		}
		vAssert(accepted == ok[i], "exactly the orphans connectable through valid blocks are accepted, whatever else is invalid")
		_, inPool := b.orphans[*blocks[i].Hash()]
		if ok[i] {
			vAssert(!inPool, "accepted orphans leave the pool")
		}
	}
	vReach("end")
}
