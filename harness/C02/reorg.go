//verif:module .
//verif:pkg blockchain
package blockchain

import (
	"container/list"
	"math/big"

	"github.com/btcsuite/btcd/chaincfg/v2"
	"github.com/btcsuite/btcd/wire/v2"
)

func vMkNodes(parent *blockNode, n int, label byte) []*blockNode {
	out := make([]*blockNode, 0, n)
	for i := 0; i < n; i++ {
		nd := &blockNode{parent: parent, workSum: big.NewInt(0)}
		if parent != nil {
			nd.height = parent.height + 1
		}
		nd.hash[0] = label
		nd.hash[1] = byte(nd.height)
		nd.buildAncestor()
		out = append(out, nd)
		parent = nd
	}
	return out
}

func vListNodes(l *list.List) []*blockNode {
	var out []*blockNode
	for e := l.Front(); e != nil; e = e.Next() {
		out = append(out, e.Value.(*blockNode))
	}
	return out
}

// C02(2): getReorganizeNodes on every tree with one fork point (main branch 1..3 past the fork, side branch 1..3)
// and arbitrary validity flags on the side branch: detach = tip..fork (exclusive) tip first, attach = fork
// (exclusive)..node fork side first; if the branch contains a known-invalid block both lists are empty and
// exactly the blocks above the invalid one are marked as having an invalid ancestor.
//verif:opts reach=reorg,invalid
func VH_get_reorganize_nodes() {
	common := vMkNodes(nil, 1+vNondetLen("common", 1), 1)
	fork := common[len(common)-1]
	main := vMkNodes(fork, 1+vNondetLen("mainLen", 2), 2)
	side := vMkNodes(fork, 1+vNondetLen("sideLen", 2), 3)
	for _, n := range side {
		n.status = statusDataStored
		if vNondetBool("failed") {
			n.status |= statusValidateFailed
		}
		if vNondetBool("invalidAncestor") {
			n.status |= statusInvalidAncestor
		}
	}
	b := &BlockChain{index: newBlockIndex(nil, &chaincfg.Params{}), bestChain: newChainView(main[len(main)-1])}
	node := side[len(side)-1]
	before := make([]blockStatus, len(side))
	for i, n := range side {
		before[i] = n.status
	}
	detach, attach := b.getReorganizeNodes(node)
	d, a := vListNodes(detach), vListNodes(attach)
	// lowest index of the branch (excluding node's own status when only the parent chain matters) that is invalid
	firstInvalid := -1
	for i := len(side) - 1; i >= 0; i-- {
		if before[i].KnownInvalid() {
			firstInvalid = i
			break
		}
	}
	// a known-invalid parent short-circuits: the node itself is marked, nothing else changes
	if len(side) >= 2 && before[len(side)-2].KnownInvalid() {
		vAssert(len(d) == 0 && len(a) == 0, "a block whose parent is known invalid is never attached")
		vAssert(node.status == before[len(side)-1]|statusInvalidAncestor, "the block is marked invalid-ancestor")
		for i := 0; i < len(side)-1; i++ {
			vAssert(side[i].status == before[i], "other blocks keep their status")
		}
		vReach("invalid")
		return
	}
	// the implementation scans from the node downwards and stops at the first invalid block it meets
	if firstInvalid >= 0 {
		vAssert(len(d) == 0 && len(a) == 0, "a branch containing a known-invalid block is never attached")
		for i := firstInvalid + 1; i < len(side); i++ {
			vAssert(side[i].status&statusInvalidAncestor != 0, "blocks above the invalid one are marked invalid-ancestor")
		}
		for i := 0; i <= firstInvalid; i++ {
			vAssert(side[i].status == before[i], "blocks at or below the invalid one keep their status")
		}
		vReach("invalid")
		return
	}
	vAssert(len(a) == len(side), "attach lists the whole side branch")
	for i := range side {
		vAssert(a[i] == side[i], "attach order: fork side first")
	}
	vAssert(len(d) == len(main), "detach lists the main branch above the fork")
	for i := range main {
		vAssert(d[i] == main[len(main)-1-i], "detach order: tip first")
	}
	for i := range side {
		vAssert(side[i].status == before[i], "no status changes on a valid branch")
	}
	vReach("reorg")
}

// C02(3): a new block node's cumulative work is its parent's plus its own (>= 1 for accepted targets), height + 1
//verif:opts reach=end intmode=1
func VH_init_block_node_work() {
	parentWork := vNondetU64("parentWork")
	parent := &blockNode{workSum: new(big.Int).SetUint64(parentWork), height: int32(vNondetLen("h", 5))}
	parent.hash[0] = 9
	bits := vNondetU32("bits")
	e := vSplitU32(bits>>24, 40)
	vAssume(e >= 1 && e <= 32 && bits&0x00800000 == 0 && bits&0x007fffff != 0)
	vAssume(CompactToBig(bits).Sign() > 0) // targets accepted by checkProofOfWork are positive
	hdr := &wire.BlockHeader{Bits: bits, PrevBlock: parent.hash}
	node := newBlockNode(hdr, parent)
	vAssert(node.height == parent.height+1 && node.parent == parent, "height and parent link")
	own := CalcWork(bits)
	want := new(big.Int).Add(new(big.Int).SetUint64(parentWork), own)
	vAssert(node.workSum.Cmp(want) == 0, "workSum == parent.workSum + CalcWork(bits)")
	vAssert(node.workSum.Cmp(parent.workSum) > 0, "cumulative work strictly increases")
	vReach("end")
}
