//verif:module .
//verif:pkg blockchain
package blockchain

// C15(1) VLQ: deserializeVLQ(putVLQ(n)) == (n, size), size == serializeSizeVLQ(n), for every uint64.
//verif:opts reach=end
func VH_vlq_roundtrip() {
	n := vNondetU64("n")
	var buf [12]byte
	sz := putVLQ(buf[:], n)
	vAssert(sz == serializeSizeVLQ(n), "putVLQ writes serializeSizeVLQ(n) bytes")
	vAssert(sz >= 1 && sz <= 10, "VLQ size within 1..10")
	m, rd := deserializeVLQ(buf[:sz])
	vAssert(m == n, "VLQ value round trip")
	vAssert(rd == sz, "VLQ bytes consumed == bytes written")
	// documented layout: all bytes but the last have the continuation bit, the last has not
	for i := 0; i < sz-1; i++ {
		vAssert(buf[i]&0x80 != 0, "continuation bit on non-final byte")
	}
	vAssert(buf[sz-1]&0x80 == 0, "no continuation bit on final byte")
	vObserve("sz", uint64(sz))
	vReach("end")
}

// C15(1) robustness: deserializeVLQ on every byte string of length 0..11 never panics and never
// claims to have read more than it was given.
//verif:opts reach=end
func VH_vlq_decode_robust() {
	n := vNondetLen("len", 11)
	b := vNondetBytes("b", n)
	v, rd := deserializeVLQ(b)
	vAssert(rd <= len(b), "bytes read <= len(input)")
	vAssert(rd >= 0, "bytes read >= 0")
	vObserve("v", v)
	vObserve("rd", uint64(rd))
	vReach("end")
}

// C15(5) robustness: deserializeUtxoEntry on every byte string of length <= N never panics.
//verif:opts reach=end par=8 override=decompressTxOutAmount:vStubAmount
func VH_utxo_decode_robust() {
	max := 12
	if vTier() == 1 {
		max = 16
	}
	n := vNondetLen("len", max)
	b := vNondetBytes("ser", n)
	e, err := deserializeUtxoEntry(b)
	if err == nil {
		vAssert(e != nil, "nil error implies an entry")
	}
	vReach("end")
}

// the amount decompression kernel (64-bit div/mod by 10) is decided separately in amount.go;
// inside byte-parsing harnesses it is replaced by an arbitrary value.
func vStubAmount(x uint64) uint64 { return vNondetU64("stub.amount") }
