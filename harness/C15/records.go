//verif:module .
//verif:pkg blockchain
package blockchain

import (
	"math/big"

	"github.com/btcsuite/btcd/wire/v2"
)

func vSameBytes(a, b []byte) bool {
	if len(a) != len(b) {
		return false
	}
	for i := range a {
		if a[i] != b[i] {
			return false
		}
	}
	return true
}

// C15(2): amount compression round trip (integer-theory backend, one query per exponent path) for every
// amount up to the money supply, and for every 64-bit amount ending in at least one zero digit
//verif:opts reach=end intmode=1
func VH_amount_roundtrip() {
	x := vNondetU64("x")
	vAssume(x <= 2100000000000000)
	c := compressTxOutAmount(x)
	y := decompressTxOutAmount(c)
	vAssert(y == x, "decompress(compress(x)) == x for x <= 21e14")
	vAssert(x == 0 || c != 0, "only zero compresses to zero")
	vReach("end")
}

// C15(2): whole 64-bit range (known finding: amounts above ~2^64/9 that do not end in 0 overflow the encoding)
//verif:opts reach=end intmode=1
func VH_amount_roundtrip_full_range() {
	x := vNondetU64("x")
	c := compressTxOutAmount(x)
	y := decompressTxOutAmount(c)
	vAssert(y == x, "decompress(compress(x)) == x for every uint64")
	vReach("end")
}

func vScriptOfKind(kind int) []byte {
	switch kind {
	case 0: // pay-to-pubkey-hash template with arbitrary hash
		s := []byte{0x76, 0xa9, 0x14}
		s = append(s, vNondetBytes("h160", 20)...)
		return append(s, 0x88, 0xac)
	case 1: // pay-to-script-hash
		s := []byte{0xa9, 0x14}
		s = append(s, vNondetBytes("h160", 20)...)
		return append(s, 0x87)
	case 2: // pay-to-compressed-pubkey (validity of the point is a nondeterministic verdict)
		s := []byte{0x21, 0x02 + byte(vNondetLen("parity", 1))}
		s = append(s, vNondetBytes("x", 32)...)
		return append(s, 0xac)
	case 3: // arbitrary 25 bytes: may or may not be a pay-to-pubkey-hash
		return vNondetBytes("any25", 25)
	case 4: // arbitrary 23 bytes: may or may not be a pay-to-script-hash
		return vNondetBytes("any23", 23)
	case 6: // a special template followed by extra bytes is NOT the special form
		s := []byte{0x76, 0xa9, 0x14}
		s = append(s, vNondetBytes("h160", 20)...)
		s = append(s, 0x88, 0xac)
		return append(s, vNondetBytes("extra", 1+vNondetLen("nextra", 1))...)
	case 7:
		s := []byte{0xa9, 0x14}
		s = append(s, vNondetBytes("h160", 20)...)
		s = append(s, 0x87)
		return append(s, vNondetBytes("extra", 1+vNondetLen("nextra", 1))...)
	case 9: // pay-to-pubkey frame around a hybrid-encoded key (the generator; 0x06 is its valid hybrid form): parseable,
		// but not a compressible template
		s := []byte{0x41, 0x06 + byte(vNondetLen("oddness", 1)),
			0x79, 0xbe, 0x66, 0x7e, 0xf9, 0xdc, 0xbb, 0xac, 0x55, 0xa0, 0x62, 0x95, 0xce, 0x87, 0x0b, 0x07,
			0x02, 0x9b, 0xfc, 0xdb, 0x2d, 0xce, 0x28, 0xd9, 0x59, 0xf2, 0x81, 0x5b, 0x16, 0xf8, 0x17, 0x98,
			0x48, 0x3a, 0xda, 0x77, 0x26, 0xa3, 0xc4, 0x65, 0x5d, 0xa4, 0xfb, 0xfc, 0x0e, 0x11, 0x08, 0xa8,
			0xfd, 0x17, 0xb4, 0x48, 0xa6, 0x85, 0x54, 0x19, 0x9c, 0x47, 0xd0, 0x8f, 0xfb, 0x10, 0xd4, 0xb8}
		return append(s, 0xac)
	case 8: // compressed-pubkey template followed by an extra byte
		s := []byte{0x21, 0x02}
		s = append(s, vNondetBytes("x", 32)...)
		return append(s, 0xac, vNondetU8("extra"))
	}
	// generic scripts around the lengths where the size prefix changes its own length
	lens := []int{0, 1, 2, 20, 120, 121, 122, 123, 127, 128}
	n := lens[vNondetLen("glen", len(lens)-1)]
	s := make([]byte, n)
	for i := 0; i < n && i < 3; i++ {
		s[i] = vNondetU8("gb")
	}
	return s
}

// C15(3): script compression: compressedScriptSize == bytes written == what decodeCompressedScriptSize reads
// back, and decompressScript(putCompressedScript(s)) == s, for the special templates and generic scripts
//verif:opts reach=end
func VH_script_compression_roundtrip() {
	s := vScriptOfKind(vNondetLen("kind", 9))
	n := compressedScriptSize(s)
	buf := make([]byte, n+2)
	w := putCompressedScript(buf, s)
	vAssert(w == n, "compressedScriptSize == bytes written by putCompressedScript")
	vAssert(decodeCompressedScriptSize(buf[:n]) == n, "decodeCompressedScriptSize of the encoding == its length")
	back := decompressScript(buf[:n])
	vAssert(vSameBytes(back, s) || (len(s) == 0 && len(back) == 0), "decompressScript(putCompressedScript(s)) == s")
	vObserve("n", uint64(n))
	vReach("end")
}

var vAmounts = []int64{0, 1, 9, 10, 546, 100000000, 5000000000, 2100000000000000, 123456789, 1000000007}

// C15(4): utxo entry serialisation round trip: every height, coinbase flag, representative amounts, scripts
//verif:opts reach=end
func VH_utxo_entry_roundtrip() {
	amt := vAmounts[vNondetLen("amt", len(vAmounts)-1)]
	h := vNondetI32("height")
	vAssume(h >= 0)
	e := &UtxoEntry{amount: amt, blockHeight: h, pkScript: vScriptOfKind(5)}
	if vNondetBool("coinbase") {
		e.packedFlags |= tfCoinBase
	}
	ser, err := serializeUtxoEntry(e)
	vAssert(err == nil && len(ser) > 0, "serialises")
	code, _ := utxoEntryHeaderCode(e)
	vAssert(len(ser) == serializeSizeVLQ(code)+compressedTxOutSize(uint64(amt), e.pkScript), "size calculators == encoded length")
	d, err := deserializeUtxoEntry(ser)
	vAssert(err == nil && d != nil, "own encoding decodes")
	vAssert(d.blockHeight == h && d.IsCoinBase() == e.IsCoinBase() && !d.IsSpent(), "height and flags round trip")
	vAssert(vSameBytes(d.pkScript, e.pkScript) || len(e.pkScript) == 0, "script round trips")
	vAssert(d.amount == amt, "amount round trips")
	vReach("end")
}

// C15(4): spent-output journal record round trip and size calculator
//verif:opts reach=end
func VH_stxo_roundtrip() {
	amt := vAmounts[vNondetLen("amt", len(vAmounts)-1)]
	s := SpentTxOut{Amount: amt, Height: vNondetI32("height"), IsCoinBase: vNondetBool("coinbase"), PkScript: vScriptOfKind(5)}
	vAssume(s.Height >= 0)
	n := spentTxOutSerializeSize(&s)
	buf := make([]byte, n+1)
	w := putSpentTxOut(buf, &s)
	vAssert(w == n, "spentTxOutSerializeSize == bytes written")
	var d SpentTxOut
	r, err := decodeSpentTxOut(buf[:n], &d)
	vAssert(err == nil && r == n, "decodes and consumes exactly the record")
	vAssert(d.Height == s.Height && (d.IsCoinBase == s.IsCoinBase), "height and coinbase flag round trip")
	vAssert(vSameBytes(d.PkScript, s.PkScript) || len(s.PkScript) == 0, "script round trips")
	vAssert(d.Amount == amt, "amount round trips")
	vReach("end")
}

// C15(4): spend journal entry: records are stored in reverse spend order and matched to the inputs of the
// block's transactions
//verif:opts reach=end
func VH_spend_journal_roundtrip() {
	n := 1 + vNondetLen("n", 2)
	stxos := make([]SpentTxOut, n)
	for i := range stxos {
		stxos[i] = SpentTxOut{Amount: int64(i + 1), Height: vNondetI32("height"), IsCoinBase: vNondetBool("cb"), PkScript: []byte{vNondetU8("pk")}}
		vAssume(stxos[i].Height >= 0)
	}
	ser := serializeSpendJournalEntry(stxos)
	// transactions whose inputs add up to n: (1), (1,1), (2,1)
	var txns []*wire.MsgTx
	left := n
	for left > 0 {
		k := 1
		if left == 3 {
			k = 2
		}
		tx := wire.NewMsgTx(1)
		for j := 0; j < k; j++ {
			tx.AddTxIn(&wire.TxIn{})
		}
		txns = append(txns, tx)
		left -= k
	}
	got, err := deserializeSpendJournalEntry(ser, txns)
	vAssert(err == nil && len(got) == n, "journal decodes to one record per input")
	for i := 0; i < n; i++ {
		vAssert(got[i].Height == stxos[i].Height && got[i].IsCoinBase == stxos[i].IsCoinBase &&
			len(got[i].PkScript) == 1 && got[i].PkScript[0] == stxos[i].PkScript[0] &&
			got[i].Amount == stxos[i].Amount, "record i describes input i")
	}
	vReach("end")
}

// C15(4): best chain state record round trip and documented layout
//verif:opts reach=end bigw=128
func VH_best_chain_state_roundtrip() {
	var st bestChainState
	copy(st.hash[:], vNondetBytes("hash", 32))
	st.height = vNondetU32("height")
	st.totalTxns = vNondetU64("txns")
	wl := vNondetLen("worklen", 4)
	wb := vNondetBytes("work", wl)
	if wl > 0 {
		vAssume(wb[0] != 0)
	}
	st.workSum = new(big.Int).SetBytes(wb)
	ser := serializeBestChainState(st)
	vAssert(len(ser) == 32+4+8+4+wl, "layout: hash | height | total txns | work length | work bytes")
	vAssert(uint32(ser[32])|uint32(ser[33])<<8|uint32(ser[34])<<16|uint32(ser[35])<<24 == st.height, "height is little endian at offset 32")
	vAssert(int(ser[44]) == wl && ser[45] == 0, "work length at offset 44")
	d, err := deserializeBestChainState(ser)
	vAssert(err == nil, "own encoding decodes")
	vAssert(d.hash == st.hash && d.height == st.height && d.totalTxns == st.totalTxns && d.workSum.Cmp(st.workSum) == 0, "fields round trip")
	vReach("end")
}

// C15(5): decoders on arbitrary bytes never panic
//verif:opts reach=end bigw=128
func VH_best_chain_state_decode_robust() {
	lens := []int{0, 47, 48, 49, 52}
	n := lens[vNondetLen("leni", len(lens)-1)]
	b := vNondetBytes("ser", n)
	_, _ = deserializeBestChainState(b)
	vReach("end")
}

// C15(6): decodeSpentTxOut on arbitrary bytes: an error or a value, never a panic, never more bytes consumed than given.
//verif:opts reach=end override=decompressTxOutAmount:vStubAmount
func VH_stxo_decode_robust() {
	n := vNondetLen("len", 12)
	b := vNondetBytes("ser", n)
	var d SpentTxOut
	r, err := decodeSpentTxOut(b, &d)
	vAssert(r <= len(b) || err != nil, "never claims to have read more than the input on success")
	vReach("end")
}

// C15(6): deserializeSpendJournalEntry on arbitrary bytes for a one-input transaction: an error or a value, never a panic.
//verif:opts reach=end override=decompressTxOutAmount:vStubAmount
func VH_spend_journal_decode_robust() {
	n := vNondetLen("len", 8)
	b := vNondetBytes("ser", n)
	tx := wire.NewMsgTx(1)
	tx.AddTxIn(&wire.TxIn{})
	tx.AddTxIn(&wire.TxIn{})
	_, _ = deserializeSpendJournalEntry(b, []*wire.MsgTx{tx})
	vReach("end")
}

// C15(6): block-index rows on arbitrary bytes: an error or a value, never a panic or an out-of-bounds read.
//verif:opts reach=end
func VH_block_row_decode_robust() {
	lens := []int{0, 79, 80, 81, 82}
	n := lens[vNondetLen("leni", len(lens)-1)]
	b := vNondetBytes("row", n)
	h, st, err := deserializeBlockRow(b)
	if err == nil {
		vAssert(n >= 81 && h != nil && byte(st) == b[80], "a row is an 80-byte header followed by the status byte")
		vAssert(uint32(h.Version) == uint32(b[0])|uint32(b[1])<<8|uint32(b[2])<<16|uint32(b[3])<<24, "header version is little endian at offset 0")
		vAssert(h.Bits == uint32(b[72])|uint32(b[73])<<8|uint32(b[74])<<16|uint32(b[75])<<24, "bits at offset 72")
	} else {
		vAssert(n < 81, "only short rows are rejected")
	}
	vReach("end")
}

// C15(4'): databases written by older versions stay readable: a LEGACY spend-journal record carries the containing
// transaction's version as a variable-length quantity in the slot the current writer fills with a single 0x00:
// header code VLQ || version VLQ (arbitrary 32-bit value, 1..5 bytes) || compressed txout decodes to the same
// height / coinbase flag / amount / script and consumes exactly the record.
//verif:opts reach=end
func VH_stxo_legacy_reserved_field() {
	h := vNondetI32("height")
	vAssume(h > 0)
	cb := vNondetBool("coinbase")
	code := uint64(h) << 1
	if cb {
		code |= 1
	}
	ver := uint64(vNondetU32("legacyTxVersion"))
	amt := vAmounts[vNondetLen("amt", len(vAmounts)-1)]
	script := []byte{0x51, vNondetU8("scriptByte")}
	buf := make([]byte, serializeSizeVLQ(code)+serializeSizeVLQ(ver)+compressedTxOutSize(uint64(amt), script))
	off := putVLQ(buf, code)
	off += putVLQ(buf[off:], ver)
	off += putCompressedTxOut(buf[off:], uint64(amt), script)
	vAssert(off == len(buf), "harness wrote the whole record")
	var d SpentTxOut
	r, err := decodeSpentTxOut(buf, &d)
	vAssert(err == nil && r == len(buf), "a legacy record decodes and is consumed exactly")
	vAssert(d.Height == h && d.IsCoinBase == cb && d.Amount == amt, "height, coinbase flag and amount are read back")
	vAssert(vSameBytes(d.PkScript, script), "script is read back")
	vReach("end")
}

// C15(2'): the legacy (version 0) per-transaction utxo format read by the migration: version VLQ || height VLQ ||
// header code (bit 0 coinbase, bit 1 / 2 outputs 0 / 1 unspent, remaining bits number of bitmap bytes, plus one when
// neither is set) || bitmap, bit j of byte i = output 2 + 8i + j unspent || one compressed txout per unspent output in
// index order.  For every header / two bitmap bytes with at most 3 unspent outputs in total the decoder returns
// exactly the outputs the bitmap names - including bit 7 of each byte - each with the amount written for it.
//verif:opts reach=end
func VH_utxo_v0_bitmap() {
	cb := vNondetBool("coinbase")
	o0, o1 := vNondetBool("out0"), vNondetBool("out1")
	bm := []byte{vNondetU8("bitmap0"), vNondetU8("bitmap1")}
	var idx []uint32
	if o0 {
		idx = append(idx, 0)
	}
	if o1 {
		idx = append(idx, 1)
	}
	for i := uint32(0); i < 2; i++ {
		for j := uint32(0); j < 8; j++ {
			if bm[i]>>j&1 == 1 {
				idx = append(idx, 2+8*i+j)
			}
		}
	}
	vAssume(len(idx) >= 1 && len(idx) <= 3)
	// the format stores (number of bitmap bytes) in the header, minus one when neither of the first two is unspent
	nb := uint64(2)
	if !o0 && !o1 {
		nb = 1
	}
	code := nb << 3
	if cb {
		code |= 1
	}
	if o0 {
		code |= 2
	}
	if o1 {
		code |= 4
	}
	ser := make([]byte, 0, 64)
	tmp := make([]byte, 16)
	ser = append(ser, tmp[:putVLQ(tmp, 1)]...)   // version
	ser = append(ser, tmp[:putVLQ(tmp, 300)]...) // height
	ser = append(ser, tmp[:putVLQ(tmp, code)]...)
	ser = append(ser, bm...)
	for k := range idx {
		ser = append(ser, tmp[:putCompressedTxOut(tmp, uint64(1000+k), []byte{0x51, byte(k)})]...)
	}
	got, err := deserializeUtxoEntryV0(ser)
	vAssert(err == nil && len(got) == len(idx), "exactly the outputs named by header and bitmap are returned")
	for k, ix := range idx {
		e := got[ix]
		vAssert(e != nil && e.Amount() == int64(1000+k) && e.BlockHeight() == 300 && e.IsCoinBase() == cb, "each unspent output carries its own txout, the height and the coinbase flag")
	}
	vReach("end")
}
