package blockchain

import (
	"time"

	"github.com/btcsuite/btcd/chaincfg/v2"
)

// VX_NewMemChain builds a BlockChain whose best chain is a straight in-memory line of len(bits) nodes starting at
// height base (no database): enough state for BestSnapshot, CalcNextRequiredDifficulty and the header-context
// queries.  Used by harnesses that live in other packages (overlaid into this package by //verif:extra).
func VX_NewMemChain(params *chaincfg.Params, base int32, bits []uint32, ts []int64, median time.Time) *BlockChain {
	targetTimespan := int64(params.TargetTimespan / time.Second)
	targetTimePerBlock := int64(params.TargetTimePerBlock / time.Second)
	adjustmentFactor := params.RetargetAdjustmentFactor
	b := &BlockChain{
		chainParams:         params,
		minRetargetTimespan: targetTimespan / adjustmentFactor,
		maxRetargetTimespan: targetTimespan * adjustmentFactor,
		blocksPerRetarget:   int32(targetTimespan / targetTimePerBlock),
		index:               newBlockIndex(nil, params),
	}
	var prev *blockNode
	for i := range bits {
		n := &blockNode{height: base + int32(i), bits: bits[i], timestamp: ts[i], parent: prev}
		n.hash[0] = byte(i + 1)
		n.status = statusValid
		prev = n
	}
	b.bestChain = newChainView(prev)
	b.stateSnapshot = newBestState(prev, 0, 0, 0, 0, median)
	return b
}
