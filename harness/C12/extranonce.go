//verif:module .
//verif:pkg mining
package mining

import (
	"bytes"

	"github.com/btcsuite/btcd/blockchain"
	"github.com/btcsuite/btcd/btcutil/v2"
	"github.com/btcsuite/btcd/wire/v2"
)

// C12(7): updating the extra nonce keeps the template valid: for every height, extra nonce (except 2^63, known
// finding) and 1..3 transactions, UpdateExtraNonce leaves exactly the standard coinbase script for (height, nonce)
// in the coinbase and a header merkle root equal to the merkle root of the block's (changed) transactions; nothing
// else in the block changes.  (SHA-256 uninterpreted: equality of roots is equality of the hashed structure.)
//verif:opts reach=end
func VH_update_extra_nonce() {
	h := vNondetI32("height")
	vAssume(h >= 0)
	nonce := vNondetU64("extraNonce")
	vAssume(nonce != 1<<63)
	msg := &wire.MsgBlock{Header: wire.BlockHeader{Version: 4, Bits: 0x207fffff, Nonce: 5}}
	cb := wire.NewMsgTx(1)
	cb.AddTxIn(&wire.TxIn{PreviousOutPoint: wire.OutPoint{Index: 0xffffffff}, SignatureScript: []byte{0x51, 0x51}, Sequence: 0xffffffff})
	cb.AddTxOut(&wire.TxOut{Value: 50, PkScript: []byte{0x51}})
	msg.AddTransaction(cb)
	n := vNondetLen("extraTxs", 2)
	for i := 0; i < n; i++ {
		tx := wire.NewMsgTx(2)
		var op wire.OutPoint
		op.Hash[0] = byte(i + 1)
		tx.AddTxIn(&wire.TxIn{PreviousOutPoint: op})
		tx.AddTxOut(&wire.TxOut{Value: int64(i), PkScript: []byte{0x51}})
		msg.AddTransaction(tx)
	}
	g := &BlkTmplGenerator{}
	err := g.UpdateExtraNonce(msg, h, nonce)
	vAssert(err == nil, "update succeeds")
	want, serr := standardCoinbaseScript(h, nonce)
	vAssert(serr == nil && bytes.Equal(msg.Transactions[0].TxIn[0].SignatureScript, want), "coinbase script == standard script for (height, extra nonce)")
	root := blockchain.CalcMerkleRoot(btcutil.NewBlock(msg).Transactions(), false)
	vAssert(msg.Header.MerkleRoot == root, "header merkle root commits to the updated transactions")
	vAssert(len(msg.Transactions) == 1+n && msg.Header.Nonce == 5 && msg.Header.Bits == 0x207fffff, "nothing else changes")
	vReach("end")
}
