//verif:module .
//verif:pkg mining
//verif:extra blockchain _extra/chainbuilder.go
package mining

import (
	"time"

	"github.com/btcsuite/btcd/blockchain"
	"github.com/btcsuite/btcd/chaincfg/v2"
	"github.com/btcsuite/btcd/wire/v2"
)

type vClock struct{ now time.Time }

func (c *vClock) AdjustedTime() time.Time            { return c.now }
func (c *vClock) AddTimeSample(string, time.Time)    {}
func (c *vClock) Offset() time.Duration              { return 0 }

// C12(6): updating a template's time keeps it valid: after UpdateBlockTime the header time is
// max(adjusted now, median time past + 1s) and, on networks with the 20-minute minimum-difficulty rule, the header
// bits are exactly what the chain requires for a block carrying *that* timestamp on the current tip - for every
// tip timestamp, tip difficulty (real or minimum), clock reading, median time and stale template content.
//verif:opts reach=mindiff,realdiff
func VH_update_block_time() {
	params := chaincfg.TestNet3Params
	params.ReduceMinDifficulty = vNondetBool("reduceMinDifficulty")
	realBits := uint32(0x1c00ffff)
	tipBits := realBits
	if vNondetBool("tipIsMinDiff") {
		tipBits = params.PowLimitBits
	}
	t0 := int64(vNondetU32("parentTime"))
	t1 := int64(vNondetU32("tipTime"))
	chain := blockchain.VX_NewMemChain(&params, 5, []uint32{realBits, tipBits}, []int64{t0, t1},
		time.Unix(int64(vNondetU32("medianTime")), 0))
	clock := &vClock{now: time.Unix(int64(vNondetU32("now")), 0)}
	g := &BlkTmplGenerator{chainParams: &params, chain: chain, timeSource: clock}
	blk := &wire.MsgBlock{}
	blk.Header.Timestamp = time.Unix(int64(vNondetU32("staleTime")), 0)
	oldBits := realBits
	if vNondetBool("staleIsMinDiff") {
		oldBits = params.PowLimitBits
	}
	blk.Header.Bits = oldBits
	err := g.UpdateBlockTime(blk)
	vAssert(err == nil, "time update succeeds")
	min := chain.BestSnapshot().MedianTime.Add(time.Second)
	want := clock.now
	if want.Before(min) {
		want = min
	}
	vAssert(blk.Header.Timestamp.Equal(want), "header time = max(now, median time past + 1s)")
	if params.ReduceMinDifficulty {
		need, err := chain.CalcNextRequiredDifficulty(blk.Header.Timestamp)
		vAssert(err == nil && blk.Header.Bits == need, "header bits are the bits required for the header's own timestamp")
		if need == params.PowLimitBits {
			vReach("mindiff")
		} else {
			vReach("realdiff")
		}
	} else {
		vAssert(blk.Header.Bits == oldBits, "bits untouched on networks without the minimum-difficulty rule")
	}
}
