//verif:module .
//verif:pkg mining
package mining

// C12(4): the two template priority-queue orders are strict weak orders (irreflexive, asymmetric, transitive,
// transitivity of incomparability) over three items with symbolic fee rates and priorities from a small set
// (floating-point arithmetic is outside the encoder; only comparisons of concrete priorities are used).
//verif:opts reach=end
func VH_txpq_strict_weak_order() {
	prios := []float64{0, 1, 57600000}
	pq := &txPriorityQueue{}
	for i := 0; i < 3; i++ {
		pq.items = append(pq.items, &txPrioItem{feePerKB: vNondetI64("feePerKB"), priority: prios[vNondetLen("prio", 2)]})
	}
	for _, less := range []func(*txPriorityQueue, int, int) bool{txPQByFee, txPQByPriority} {
		for i := 0; i < 3; i++ {
			vAssert(!less(pq, i, i), "irreflexive")
		}
		for i := 0; i < 3; i++ {
			for j := 0; j < 3; j++ {
				vAssert(!(less(pq, i, j) && less(pq, j, i)), "asymmetric")
			}
		}
		vAssert(!(less(pq, 0, 1) && less(pq, 1, 2)) || less(pq, 0, 2), "transitive")
		inc := func(a, b int) bool { return !less(pq, a, b) && !less(pq, b, a) }
		vAssert(!(inc(0, 1) && inc(1, 2)) || inc(0, 2), "incomparability is transitive")
	}
	vReach("end")
}
