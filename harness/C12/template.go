//verif:module .
//verif:pkg mining
package mining

import (
	"time"

	"github.com/btcsuite/btcd/blockchain"
	"github.com/btcsuite/btcd/btcutil/v2"
	"github.com/btcsuite/btcd/chaincfg/v2"
	"github.com/btcsuite/btcd/wire/v2"
)

// C12(1): BIP34 round trip: the coinbase script built for (height, extraNonce) has a length inside [2,100] and
// blockchain.ExtractCoinbaseHeight / CheckSerializedHeight read the same height back, for every height in
// [0, 2^31) and every extra nonce except 2^63 (see known findings).
//verif:opts reach=end
func VH_coinbase_script_roundtrip() {
	h := vNondetI32("height")
	vAssume(h >= 0)
	nonce := vNondetU64("extraNonce")
	vAssume(nonce != 1<<63)
	script, err := standardCoinbaseScript(h, nonce)
	vAssert(err == nil, "script builds")
	vAssert(len(script) >= blockchain.MinCoinbaseScriptLen && len(script) <= blockchain.MaxCoinbaseScriptLen, "length within [2,100]")
	m := wire.NewMsgTx(1)
	m.AddTxIn(&wire.TxIn{SignatureScript: script})
	tx := btcutil.NewTx(m)
	got, err := blockchain.ExtractCoinbaseHeight(tx)
	vAssert(err == nil && got == h, "ExtractCoinbaseHeight(standardCoinbaseScript(h)) == h")
	vAssert(blockchain.CheckSerializedHeight(tx, h) == nil, "CheckSerializedHeight accepts it")
	vObserve("len", uint64(len(script)))
	vReach("end")
}

// C12(1'): the extra nonce 2^63 (known finding: every path panics, so no reach tag is declared)
//verif:opts reach=
func VH_coinbase_script_extranonce_2_63() {
	script, err := standardCoinbaseScript(vNondetI32("height"), 1<<63)
	vAssert(err == nil && len(script) >= 2, "script builds for extra nonce 2^63")
	vReach("end")
}

// C12(3): createCoinbaseTx: one input with the null outpoint and final sequence, value == subsidy(height)
//verif:opts reach=end
func VH_create_coinbase_tx() {
	h := vNondetI32("height")
	vAssume(h >= 0)
	params := &chaincfg.Params{SubsidyReductionInterval: 210000}
	script := []byte{1, 2, 3}
	tx, err := createCoinbaseTx(params, script, h, nil)
	vAssert(err == nil, "coinbase created")
	m := tx.MsgTx()
	vAssert(len(m.TxIn) == 1 && len(m.TxOut) == 1, "one input, one output")
	vAssert(blockchain.IsCoinBaseTx(m), "recognised as coinbase")
	vAssert(m.TxIn[0].Sequence == 0xffffffff && m.TxIn[0].PreviousOutPoint.Index == 0xffffffff, "null outpoint, final sequence")
	vAssert(m.TxOut[0].Value == blockchain.CalcBlockSubsidy(h, params), "pays exactly the subsidy (fees are added by the caller)")
	vAssert(len(m.TxOut[0].PkScript) == 1 && m.TxOut[0].PkScript[0] == 0x51, "anyone-can-spend script when no address is given")
	vReach("end")
}

// C12(2): AddWitnessCommitment followed by ValidateWitnessCommitment succeeds, for 1..4 transactions with
// arbitrary witness ids (SHA-256 uninterpreted); the commitment is the last matching output.
//verif:opts reach=end
func VH_witness_commitment_roundtrip() {
	n := 1 + vNondetLen("n", 3)
	cb := wire.NewMsgTx(1)
	cb.AddTxIn(&wire.TxIn{PreviousOutPoint: wire.OutPoint{Index: 0xffffffff}, SignatureScript: []byte{1, 1}, Sequence: 0xffffffff})
	cb.AddTxOut(&wire.TxOut{Value: 50})
	if vNondetBool("staleCommitment") {
		// an older commitment-looking output must not confuse extraction: the last one wins
		stale := append(append([]byte{}, blockchain.WitnessMagicBytes...), vNondetBytes("stale", 32)...)
		cb.AddTxOut(&wire.TxOut{PkScript: stale})
	}
	txs := []*btcutil.Tx{btcutil.NewTx(cb)}
	blk := wire.MsgBlock{}
	blk.Transactions = append(blk.Transactions, cb)
	for i := 1; i < n; i++ {
		m := wire.NewMsgTx(vNondetI32("version"))
		m.AddTxIn(&wire.TxIn{Sequence: vNondetU32("seq"), Witness: wire.TxWitness{vNondetBytes("wit", 1)}})
		m.LockTime = vNondetU32("locktime")
		txs = append(txs, btcutil.NewTx(m))
		blk.Transactions = append(blk.Transactions, m)
	}
	commitment := AddWitnessCommitment(txs[0], txs)
	vAssert(len(commitment) == 32, "32-byte commitment")
	got, found := blockchain.ExtractWitnessCommitment(txs[0])
	vAssert(found && len(got) == 32, "commitment found in the coinbase")
	for i := 0; i < 32; i++ {
		vAssert(got[i] == commitment[i], "extracted commitment is the one just added")
	}
	vAssert(blockchain.ValidateWitnessCommitment(btcutil.NewBlock(&blk)) == nil, "the block validates")
	vReach("end")
}

// C12(3): medianAdjustedTime >= median time past + 1s and == adjusted time when that is later
type vTimeSource struct{ t time.Time }

func (s vTimeSource) AdjustedTime() time.Time              { return s.t }
func (s vTimeSource) AddTimeSample(string, time.Time)       {}
func (s vTimeSource) Offset() time.Duration                 { return 0 }

// C12(5): the template timestamp is max(adjusted clock, median time past + 1s) for every clock reading and median:
// never at or before the median time past, which consensus would reject.
//verif:opts reach=end
func VH_median_adjusted_time() {
	mtp := vNondetI64("mtp")
	now := vNondetI64("now")
	vAssume(mtp >= 0 && mtp < 1<<40 && now >= 0 && now < 1<<40)
	st := &blockchain.BestState{MedianTime: time.Unix(mtp, 0)}
	got := medianAdjustedTime(st, vTimeSource{t: time.Unix(now, 0)}).Unix()
	want := now
	if now < mtp+1 {
		want = mtp + 1
	}
	vAssert(got == want, "template time == max(adjusted time, MTP + 1s)")
	vAssert(got > mtp, "template time is strictly after the median time past")
	vReach("end")
}
