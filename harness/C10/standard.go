//verif:module .
//verif:pkg mempool
package mempool

import (
	"time"

	"github.com/btcsuite/btcd/btcutil/v2"
	"github.com/btcsuite/btcd/wire/v2"
)

// output script shapes: P2PKH, P2SH, P2WPKH, P2WSH, P2TR, P2A, OP_RETURN data carrier, bare 1-of-1 multisig
func vPolicyScript(kind int) (script []byte, witness bool, nullData bool) {
	fill := func(n int, pre []byte, post ...byte) []byte {
		s := append([]byte{}, pre...)
		for i := 0; i < n; i++ {
			s = append(s, byte(0x30+i))
		}
		return append(s, post...)
	}
	switch kind {
	case 0:
		return fill(20, []byte{0x76, 0xa9, 0x14}, 0x88, 0xac), false, false
	case 1:
		return fill(20, []byte{0xa9, 0x14}, 0x87), false, false
	case 2:
		return fill(20, []byte{0x00, 0x14}), true, false
	case 3:
		return fill(32, []byte{0x00, 0x20}), true, false
	case 4:
		return fill(32, []byte{0x51, 0x20}), true, false
	case 5:
		return []byte{0x51, 0x02, 0x4e, 0x73}, true, false
	default:
		return fill(8, []byte{0x6a, 0x08}), false, true
	}
}

// C10(8): dust: an output is dust iff it is unspendable or value*1000 / (3 * (serialized output size + 41 + 107,
// the 107 discounted by 4 for witness programs)) < relay fee rate; every standard output shape, every value in the
// money range, every rate up to 1 BTC/kvB.
//verif:opts reach=end intmode=1
func VH_is_dust() {
	kind := vNondetLen("kind", 6)
	script, witness, nullData := vPolicyScript(kind)
	v := vNondetI64("value")
	rate := vNondetI64("rate")
	vAssume(v >= 0 && v <= vMaxSatoshi && rate >= 0 && rate <= 100000000)
	out := &wire.TxOut{Value: v, PkScript: script}
	size := int64(8 + 1 + len(script) + 41)
	if witness {
		size += 26
	} else {
		size += 107
	}
	vAssert(GetDustThreshold(out) == 3*size, "dust threshold = 3 * (output size + typical input size)")
	got := IsDust(out, btcutil.Amount(rate))
	if nullData {
		vAssert(got, "provably unspendable outputs are dust")
	} else {
		vAssert(got == (v*1000/(3*size) < rate), "dust iff value*1000/threshold < relay fee rate")
	}
	vReach("end")
}

// C10(9): standardness gate: a one-input transaction with an arbitrary version, a push-only or non-push-only
// signature script of arbitrary standard/oversized length, and 1..2 outputs of the standard shapes with arbitrary
// values is standard iff 1 <= version <= max, every signature script is <= 1650 bytes and push only, no payment
// output is dust, and at most one output is a data carrier.
//verif:opts reach=standard,nonstandard intmode=1
func VH_check_transaction_standard() {
	m := wire.NewMsgTx(vNondetI32("version"))
	maxVer := int32(1 + vNondetLen("maxVersion", 2))
	sigLen := []int{0, 1650, 1651}[vNondetLen("sigLen", 2)]
	sig := make([]byte, sigLen)
	// a sequence of OP_1 pushes (0x51) is push only; one OP_NOP (0x61) makes it not push only
	for i := range sig {
		sig[i] = 0x51
	}
	pushOnly := vNondetBool("pushOnly")
	if !pushOnly && sigLen > 0 {
		sig[sigLen/2] = 0x61
	}
	m.AddTxIn(&wire.TxIn{SignatureScript: sig, Sequence: 0xffffffff})
	rate := vNondetI64("rate")
	vAssume(rate >= 0 && rate <= 100000000)
	nout := 1 + vNondetLen("nout", 1)
	dust, nulls := false, 0
	for i := 0; i < nout; i++ {
		kinds := []int{0, 2, 5, 6} // quick tier: P2PKH, P2WPKH, P2A, data carrier; thorough: all seven shapes
		if vTier() == 1 {
			kinds = []int{0, 1, 2, 3, 4, 5, 6}
		}
		script, witness, nullData := vPolicyScript(kinds[vNondetLen("kind", len(kinds)-1)])
		v := vNondetI64("value")
		vAssume(v >= 0 && v <= vMaxSatoshi)
		m.AddTxOut(&wire.TxOut{Value: v, PkScript: script})
		size := int64(8 + 1 + len(script) + 41)
		if witness {
			size += 26
		} else {
			size += 107
		}
		if nullData {
			nulls++
		} else if v*1000/(3*size) < rate {
			dust = true
		}
	}
	err := CheckTransactionStandard(btcutil.NewTx(m), 100, time.Unix(1600000000, 0), btcutil.Amount(rate), maxVer)
	want := m.Version >= 1 && m.Version <= maxVer && sigLen <= 1650 && (pushOnly || sigLen == 0) && !dust && nulls <= 1
	vAssert((err == nil) == want, "standard iff version in range, small push-only signature scripts, no dust, at most one data carrier")
	if err == nil {
		vReach("standard")
	} else {
		vReach("nonstandard")
	}
}

type vEntry struct{ script []byte }

func (e vEntry) PkScript() []byte { return e.script }

type vPolicyView struct{ scripts map[wire.OutPoint][]byte }

func (v *vPolicyView) LookupEntry(op wire.OutPoint) utxoEntry { return vEntry{v.scripts[op]} }

// C10(12): input standardness: spending a pay-to-anchor output requires an empty signature script and an empty
// witness; a P2SH input may carry at most 15 signature operations in its redeem script (n = 14..16 CHECKSIGs); an
// input spending a non-standard script form is refused; the other standard forms pass.
//verif:opts reach=ok,refused
func VH_check_inputs_standard() {
	var op wire.OutPoint
	op.Hash[0] = 0x21
	m := wire.NewMsgTx(2)
	in := &wire.TxIn{PreviousOutPoint: op}
	m.AddTxIn(in)
	m.AddTxOut(&wire.TxOut{Value: 1, PkScript: []byte{0x51}})
	h20 := make([]byte, 20)
	var prev []byte
	want := true
	switch vNondetLen("prevKind", 4) {
	case 0: // pay to anchor
		prev = []byte{0x51, 0x02, 0x4e, 0x73}
		if vNondetBool("sigScript") {
			in.SignatureScript = []byte{0x51}
			want = false
		}
		if vNondetBool("witness") {
			in.Witness = wire.TxWitness{{1}}
			want = false
		}
	case 1: // P2SH with n CHECKSIG operations in the redeem script
		prev = append(append([]byte{0xa9, 0x14}, h20...), 0x87)
		n := 14 + vNondetLen("redeemSigOps", 2)
		redeem := make([]byte, n)
		for i := range redeem {
			redeem[i] = 0xac
		}
		in.SignatureScript = append([]byte{byte(n)}, redeem...)
		want = n <= 15
	case 2: // non-standard form
		prev = []byte{0x51, 0x52, 0x93}
		want = false
	case 3: // P2PKH
		prev = append(append([]byte{0x76, 0xa9, 0x14}, h20...), 0x88, 0xac)
	default: // P2WPKH
		prev = append([]byte{0x00, 0x14}, h20...)
	}
	view := &vPolicyView{scripts: map[wire.OutPoint][]byte{op: prev}}
	err := checkInputsStandardWithView(btcutil.NewTx(m), view)
	vAssert((err == nil) == want, "inputs are standard iff P2A is spent bare, P2SH redeem scripts have <= 15 sigops and the spent form is standard")
	if err == nil {
		vReach("ok")
	} else {
		vReach("refused")
	}
}
