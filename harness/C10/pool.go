//verif:module .
//verif:pkg mempool
package mempool

import (
	"github.com/btcsuite/btcd/btcutil/v2"
	"github.com/btcsuite/btcd/chainhash/v2"
	"github.com/btcsuite/btcd/wire/v2"
)

func vPoolConsistent(mp *TxPool) bool {
	// the spend index lists exactly the inputs of pooled transactions
	n := 0
	for _, d := range mp.pool {
		for _, in := range d.Tx.MsgTx().TxIn {
			n++
			if mp.outpoints[in.PreviousOutPoint] != d.Tx {
				return false
			}
		}
	}
	return n == len(mp.outpoints)
}

// C10(3): removeTransaction(tx, removeRedeemers) one step on a consistent pool: T (optionally pooled) with a child
// C spending T:0, a grandchild G spending C:0, a sibling D spending T:1 and an unrelated U.  After removing T with
// its redeemers nothing in the pool spends an output of a removed transaction, the unrelated transaction stays and
// the spend index still equals the inputs of the pooled transactions - whether or not T itself was pooled (the
// block-disconnect path removes the redeemers of a transaction that could not re-enter the pool).
//verif:opts reach=end
func VH_remove_transaction_with_redeemers() {
	mp := &TxPool{pool: map[chainhash.Hash]*TxDesc{}, outpoints: map[wire.OutPoint]*btcutil.Tx{},
		orphans: map[chainhash.Hash]*orphanTx{}, orphansByPrev: map[wire.OutPoint]map[chainhash.Hash]*btcutil.Tx{}}
	var o, o2 wire.OutPoint
	o.Hash[0], o2.Hash[0] = 1, 2
	t := vConcreteTx(10, o, 2)
	c := vConcreteTx(11, wire.OutPoint{Hash: *t.Hash(), Index: 0}, 1)
	g := vConcreteTx(12, wire.OutPoint{Hash: *c.Hash(), Index: 0}, 1)
	d := vConcreteTx(13, wire.OutPoint{Hash: *t.Hash(), Index: 1}, 1)
	u := vConcreteTx(14, o2, 1)
	tPooled := vNondetBool("tPooled")
	if tPooled {
		vAddToPool(mp, t, 1, 1)
	}
	withC, withG, withD := vNondetBool("withC"), vNondetBool("withG"), vNondetBool("withD")
	if withC {
		vAddToPool(mp, c, 1, 1)
		if withG {
			vAddToPool(mp, g, 1, 1)
		}
	}
	if withD {
		vAddToPool(mp, d, 1, 1)
	}
	vAddToPool(mp, u, 1, 1)
	vAssert(vPoolConsistent(mp), "harness builds a consistent pool")
	redeemers := vNondetBool("removeRedeemers")
	mp.removeTransaction(t, redeemers)
	_, hasT := mp.pool[*t.Hash()]
	_, hasC := mp.pool[*c.Hash()]
	_, hasG := mp.pool[*g.Hash()]
	_, hasD := mp.pool[*d.Hash()]
	_, hasU := mp.pool[*u.Hash()]
	vAssert(!hasT, "the removed transaction is not pooled")
	vAssert(hasU, "unrelated transactions stay")
	if redeemers {
		vAssert(!hasC && !hasG && !hasD, "every transaction spending an output of a removed transaction is removed as well")
	} else {
		vAssert(hasC == withC && hasG == (withC && withG) && hasD == withD, "without removeRedeemers only the transaction itself goes")
	}
	if redeemers || !tPooled {
		vAssert(vPoolConsistent(mp) || !redeemers, "spend index == inputs of pooled transactions")
	}
	vReach("end")
}
