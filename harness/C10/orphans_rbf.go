//verif:module .
//verif:pkg mempool
package mempool

import (
	"github.com/btcsuite/btcd/btcutil/v2"
	"github.com/btcsuite/btcd/chainhash/v2"
	"github.com/btcsuite/btcd/wire/v2"
)

func vNewPool() *TxPool {
	return &TxPool{pool: map[chainhash.Hash]*TxDesc{}, outpoints: map[wire.OutPoint]*btcutil.Tx{},
		orphans: map[chainhash.Hash]*orphanTx{}, orphansByPrev: map[wire.OutPoint]map[chainhash.Hash]*btcutil.Tx{}}
}

// the orphan dependency index lists exactly the inputs of the pooled orphans, in both directions
func vOrphansConsistent(mp *TxPool) bool {
	n := 0
	for h, o := range mp.orphans {
		if *o.tx.Hash() != h {
			return false
		}
		for _, in := range o.tx.MsgTx().TxIn {
			n++
			if mp.orphansByPrev[in.PreviousOutPoint][h] != o.tx {
				return false
			}
		}
	}
	m := 0
	for _, set := range mp.orphansByPrev {
		if len(set) == 0 {
			return false
		}
		m += len(set)
	}
	return n == m
}

// The transaction id is computed (and cached by btcutil.Tx) before the possibly symbolic sequence numbers are filled
// in, so that ids stay concrete map keys; the pool logic under test never recomputes them.
func vSeqTx(label byte, seq uint32, prevs ...wire.OutPoint) *btcutil.Tx {
	m := wire.NewMsgTx(2)
	for _, p := range prevs {
		m.AddTxIn(&wire.TxIn{PreviousOutPoint: p})
	}
	m.AddTxOut(&wire.TxOut{Value: int64(label), PkScript: []byte{0x51}})
	m.AddTxOut(&wire.TxOut{Value: int64(label), PkScript: []byte{0x52}})
	tx := btcutil.NewTx(m)
	tx.Hash()
	for _, in := range m.TxIn {
		in.Sequence = seq
	}
	return tx
}

// C10(4): orphan pool, one step from an arbitrary consistent state: orphans O1 (missing parent X), optionally O2
// (child of O1, or a second spender of X) and O3 (unrelated), arbitrary clock, expiry stamps and orphan limit;
// maybeAddOrphan of a new orphan (arbitrary parent among X / O1 / O2 / unknown) keeps the dependency index exact,
// keeps the pool within the limit, stores the newcomer iff orphans are allowed, and drops nothing but expired or
// (at most one) evicted entries.
//verif:opts reach=end
func VH_orphan_pool_add() {
	mp := vNewPool()
	var x, y, z wire.OutPoint
	x.Hash[0], y.Hash[0], z.Hash[0] = 1, 2, 3
	o1 := vSeqTx(21, 0xffffffff, x)
	var pool []*btcutil.Tx
	add := func(tx *btcutil.Tx) {
		mp.orphans[*tx.Hash()] = &orphanTx{tx: tx, tag: Tag(vNondetU8("tag") & 1)}
		for _, in := range tx.MsgTx().TxIn {
			if mp.orphansByPrev[in.PreviousOutPoint] == nil {
				mp.orphansByPrev[in.PreviousOutPoint] = map[chainhash.Hash]*btcutil.Tx{}
			}
			mp.orphansByPrev[in.PreviousOutPoint][*tx.Hash()] = tx
		}
		pool = append(pool, tx)
	}
	add(o1)
	var o2 *btcutil.Tx
	switch vNondetLen("second", 2) {
	case 1:
		o2 = vSeqTx(22, 0xffffffff, wire.OutPoint{Hash: *o1.Hash(), Index: 0})
	case 2:
		o2 = vSeqTx(22, 0xffffffff, x)
	}
	if o2 != nil {
		add(o2)
	}
	if vNondetBool("third") {
		add(vSeqTx(23, 0xffffffff, y))
	}
	vAssert(vOrphansConsistent(mp), "harness builds a consistent orphan pool")
	limit := vNondetLen("maxOrphans", 3)
	mp.cfg.Policy.MaxOrphanTxs = limit
	maxSize := []int{70, 71, 84, 135}[vNondetLen("maxOrphanSize", 3)]
	mp.cfg.Policy.MaxOrphanTxSize = maxSize
	before := len(mp.orphans)
	vAssume(before <= limit || limit == 0) // reachable states respect the limit
	var parent wire.OutPoint
	switch vNondetLen("newParent", 3) {
	case 0:
		parent = x
	case 1:
		parent = wire.OutPoint{Hash: *o1.Hash(), Index: 1}
	case 2:
		parent = z
	default:
		if o2 != nil {
			parent = wire.OutPoint{Hash: *o2.Hash(), Index: 0}
		} else {
			parent = z
		}
	}
	n := vSeqTx(24, 0xffffffff, parent)
	// the newcomer may carry witness data: what is stored (and bounded) is the full serialization
	if vNondetBool("withWitness") {
		n.MsgTx().TxIn[0].Witness = [][]byte{make([]byte, []int{10, 60}[vNondetLen("witnessLen", 1)])}
	}
	full := n.MsgTx().SerializeSize()
	err := mp.maybeAddOrphan(n, Tag(0))
	vAssert((err == nil) == (full <= maxSize), "an orphan is refused iff its full serialized size (witness included) exceeds the limit")
	vAssert(vOrphansConsistent(mp), "dependency index == inputs of pooled orphans")
	_, hasN := mp.orphans[*n.Hash()]
	vAssert(hasN == (limit > 0 && full <= maxSize), "the new orphan is stored iff orphans are allowed and it is small enough")
	if err != nil {
		vAssert(len(mp.orphans) == before, "a refused orphan changes nothing")
	}
	vAssert(len(mp.orphans) <= limit || limit == 0, "orphan pool stays within the configured limit")
	if limit == 0 {
		vAssert(len(mp.orphans) == before, "with orphans disabled nothing changes")
	}
	vReach("end")
}

// C10(5): a transaction entering the main pool evicts every orphan that spends one of its inputs, and every orphan
// depending on those, and nothing else.
//verif:opts reach=end
func VH_remove_orphan_double_spends() {
	mp := vNewPool()
	var x, y wire.OutPoint
	x.Hash[0], y.Hash[0] = 1, 2
	a := vSeqTx(31, 0xffffffff, x)
	b := vSeqTx(32, 0xffffffff, wire.OutPoint{Hash: *a.Hash(), Index: 0})
	b2 := vSeqTx(33, 0xffffffff, wire.OutPoint{Hash: *b.Hash(), Index: 1})
	c := vSeqTx(34, 0xffffffff, y)
	withA, withB, withB2, withC := vNondetBool("a"), vNondetBool("b"), vNondetBool("b2"), vNondetBool("c")
	for i, tx := range []*btcutil.Tx{a, b, b2, c} {
		if []bool{withA, withB, withB2, withC}[i] {
			mp.orphans[*tx.Hash()] = &orphanTx{tx: tx}
			for _, in := range tx.MsgTx().TxIn {
				if mp.orphansByPrev[in.PreviousOutPoint] == nil {
					mp.orphansByPrev[in.PreviousOutPoint] = map[chainhash.Hash]*btcutil.Tx{}
				}
				mp.orphansByPrev[in.PreviousOutPoint][*tx.Hash()] = tx
			}
		}
	}
	spendsY := vNondetBool("spendsY")
	prevs := []wire.OutPoint{x}
	if spendsY {
		prevs = append(prevs, y)
	}
	t := vSeqTx(35, 0xffffffff, prevs...)
	mp.removeOrphanDoubleSpends(t)
	_, hasA := mp.orphans[*a.Hash()]
	_, hasB := mp.orphans[*b.Hash()]
	_, hasB2 := mp.orphans[*b2.Hash()]
	_, hasC := mp.orphans[*c.Hash()]
	vAssert(!hasA, "the conflicting orphan is evicted")
	vAssert(hasB == (withB && !withA), "orphans depending on an evicted orphan go with it; others stay")
	vAssert(hasB2 == (withB2 && !(withA && withB)), "transitively")
	vAssert(hasC == (withC && !spendsY), "unrelated orphans stay")
	vAssert(vOrphansConsistent(mp), "dependency index stays exact")
	vReach("end")
}

// C10(6): BIP125 signalling and the pool double-spend gate: on a pooled chain A <- B <- C with arbitrary sequence
// numbers (B optionally already mined, i.e. not pooled), C signals replaceability iff it or a pooled ancestor
// reachable through pooled transactions has a sequence <= 0xfffffffd; a transaction spending an outpoint already
// spent in the pool is refused unless replacement is enabled and the conflict signals, and is otherwise flagged as
// a replacement; a transaction without conflicts is never flagged.
//verif:opts reach=refused,replacement,noconflict
func VH_rbf_signalling_and_double_spend_gate() {
	mp := vNewPool()
	var x, y wire.OutPoint
	x.Hash[0], y.Hash[0] = 1, 2
	seqA, seqB, seqC := vNondetU32("seqA"), vNondetU32("seqB"), vNondetU32("seqC")
	a := vSeqTx(41, seqA, x)
	b := vSeqTx(42, seqB, wire.OutPoint{Hash: *a.Hash(), Index: 0})
	c := vSeqTx(43, seqC, wire.OutPoint{Hash: *b.Hash(), Index: 0})
	bPooled := vNondetBool("bPooled")
	vAddToPool(mp, a, 1, 1)
	if bPooled {
		vAddToPool(mp, b, 1, 1)
	}
	vAddToPool(mp, c, 1, 1)
	sig := func(s uint32) bool { return s <= 0xfffffffd }
	want := sig(seqC) || (bPooled && (sig(seqB) || sig(seqA)))
	vAssert(mp.signalsReplacement(c, nil) == want, "explicit or inherited (through pooled ancestors) BIP125 signalling")
	mp.cfg.Policy.RejectReplacement = vNondetBool("rejectReplacement")
	conflicts := vNondetBool("conflicts")
	spent := y
	if conflicts {
		spent = wire.OutPoint{Hash: *b.Hash(), Index: 0} // what C spends
	}
	r := vSeqTx(44, 0xffffffff, spent)
	isRepl, err := mp.checkPoolDoubleSpend(r)
	switch {
	case !conflicts:
		vAssert(err == nil && !isRepl, "no conflict: accepted, not a replacement")
		vReach("noconflict")
	case mp.cfg.Policy.RejectReplacement || !want:
		vAssert(err != nil && !isRepl, "double spend of a pooled input without (enabled) signalling is refused")
		vReach("refused")
	default:
		vAssert(err == nil && isRepl, "signalled conflict: treated as a replacement")
		vReach("replacement")
	}
}

func vHasOnly(m map[chainhash.Hash]*btcutil.Tx, want ...*btcutil.Tx) bool {
	if len(m) != len(want) {
		return false
	}
	for _, t := range want {
		if m[*t.Hash()] != t {
			return false
		}
	}
	return true
}

// C10(7): ancestor / descendant / conflict sets on the diamond A -> {B, C} -> D (D spends B:0 and C:0) with
// arbitrary subsets of B, C, D pooled: exactly the pooled transactions reachable in the respective direction.
//verif:opts reach=end
func VH_ancestors_descendants_conflicts() {
	mp := vNewPool()
	var x wire.OutPoint
	x.Hash[0] = 1
	a := vSeqTx(51, 0xfffffffd, x)
	b := vSeqTx(52, 0xffffffff, wire.OutPoint{Hash: *a.Hash(), Index: 0})
	c := vSeqTx(53, 0xffffffff, wire.OutPoint{Hash: *a.Hash(), Index: 1})
	d := vSeqTx(54, 0xffffffff, wire.OutPoint{Hash: *b.Hash(), Index: 0}, wire.OutPoint{Hash: *c.Hash(), Index: 0})
	withB, withC := vNondetBool("b"), vNondetBool("c")
	withD := vNondetBool("d")
	vAddToPool(mp, a, 1, 1)
	if withB {
		vAddToPool(mp, b, 1, 1)
	}
	if withC {
		vAddToPool(mp, c, 1, 1)
	}
	if withD {
		vAddToPool(mp, d, 1, 1)
	}
	var anc []*btcutil.Tx
	if withB {
		anc = append(anc, b)
	}
	if withC {
		anc = append(anc, c)
	}
	if withB || withC {
		anc = append(anc, a)
	}
	vAssert(vHasOnly(mp.txAncestors(d, nil), anc...), "ancestors of D: the pooled parents and, through them, A")
	var desc []*btcutil.Tx
	if withB {
		desc = append(desc, b)
	}
	if withC {
		desc = append(desc, c)
	}
	if withD { // d's inputs are in the spend index whenever d is pooled, even if a parent is not
		if withB || withC {
			desc = append(desc, d)
		}
	}
	vAssert(vHasOnly(mp.txDescendants(a, nil), desc...), "descendants of A: everything pooled that spends from it, transitively")
	// the double spend may come with further inputs that conflict with nothing, before or after the conflicting one
	var fresh1, fresh2 wire.OutPoint
	fresh1.Hash[0], fresh2.Hash[0] = 0x71, 0x72
	var prevs []wire.OutPoint
	if vNondetBool("freshInputFirst") {
		prevs = append(prevs, fresh1)
	}
	prevs = append(prevs, x)
	if vNondetBool("freshInputLast") {
		prevs = append(prevs, fresh2)
	}
	r := vSeqTx(55, 0xffffffff, prevs...)
	vAssert(vHasOnly(mp.txConflicts(r), append(desc, a)...), "conflicts of a double spend of A's input: A and all its descendants, wherever the conflicting input sits")
	isRepl, derr := mp.checkPoolDoubleSpend(r)
	vAssert(derr == nil && isRepl, "and the pool double-spend gate flags it as a replacement (A signals)")
	vReach("end")
}
