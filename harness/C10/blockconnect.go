//verif:module .
//verif:pkg mempool
package mempool

import (
	"github.com/btcsuite/btcd/blockchain"
	"github.com/btcsuite/btcd/btcutil/v2"
	"github.com/btcsuite/btcd/wire/v2"
)

// C10(10): when a block transaction that the pool has never seen is connected, every pooled transaction spending
// any of its inputs - and everything depending on those - leaves the pool: pooled P1 (spends A), P2 (spends B) with
// a child C2, an unrelated U; the mined transaction spends an arbitrary subset of {A, B} plus a fresh outpoint, in
// arbitrary input order.  Afterwards no pooled transaction spends an output the mined transaction spent, unrelated
// transactions stay, and the spend index is exact.
//verif:opts reach=end
func VH_remove_double_spends() {
	mp := vNewPool()
	var a, b, f, u wire.OutPoint
	a.Hash[0], b.Hash[0], f.Hash[0], u.Hash[0] = 1, 2, 3, 4
	p1 := vSeqTx(61, 0xffffffff, a)
	p2 := vSeqTx(62, 0xffffffff, b)
	c2 := vSeqTx(63, 0xffffffff, wire.OutPoint{Hash: *p2.Hash(), Index: 0})
	un := vSeqTx(64, 0xffffffff, u)
	for _, t := range []*btcutil.Tx{p1, p2, c2, un} {
		vAddToPool(mp, t, 1, 1)
	}
	spendA, spendB := vNondetBool("spendsA"), vNondetBool("spendsB")
	var prevs []wire.OutPoint
	order := vNondetLen("order", 2)
	cand := []wire.OutPoint{f}
	if spendA {
		cand = append(cand, a)
	}
	if spendB {
		cand = append(cand, b)
	}
	for i := range cand { // rotation of the input order
		prevs = append(prevs, cand[(i+order)%len(cand)])
	}
	mined := vSeqTx(65, 0xffffffff, prevs...)
	mp.RemoveDoubleSpends(mined)
	_, has1 := mp.pool[*p1.Hash()]
	_, has2 := mp.pool[*p2.Hash()]
	_, hasC := mp.pool[*c2.Hash()]
	_, hasU := mp.pool[*un.Hash()]
	vAssert(has1 == !spendA, "a pooled spender of a mined input is removed (and only then)")
	vAssert(has2 == !spendB && hasC == !spendB, "with its descendants, for every conflicting input of the mined transaction")
	vAssert(hasU, "unrelated transactions stay")
	vAssert(vPoolConsistent(mp), "spend index == inputs of pooled transactions")
	vReach("end")
}

// C10(11): the descriptor stored for a pooled transaction: fee and height as given, fee rate = fee * 1000 / virtual
// size (weight / 4 rounded up, so witness bytes are discounted) - the quantity the replacement rule later compares.
//verif:opts reach=end intmode=1
func VH_add_transaction_descriptor() {
	mp := vNewPool()
	m := wire.NewMsgTx(2)
	var op wire.OutPoint
	op.Hash[0] = 7
	in := &wire.TxIn{PreviousOutPoint: op, Sequence: 0xffffffff}
	if vNondetBool("withWitness") {
		in.Witness = [][]byte{make([]byte, []int{1, 72, 107}[vNondetLen("witnessLen", 2)])}
	}
	m.AddTxIn(in)
	m.AddTxOut(&wire.TxOut{Value: 1, PkScript: []byte{0x51}})
	tx := btcutil.NewTx(m)
	fee := vNondetI64("fee")
	vAssume(fee >= 0 && fee <= vMaxSatoshi)
	height := vNondetI32("height")
	vAssume(height >= 0)
	d := mp.addTransaction(blockchain.NewUtxoViewpoint(), tx, height, fee)
	base := int64(m.SerializeSizeStripped())
	total := int64(m.SerializeSize())
	vsize := (base*3 + total + 3) / 4
	vAssert(d != nil && d.Tx == tx && d.Fee == fee && d.Height == height, "descriptor records the transaction, its fee and height")
	vAssert(d.FeePerKB == fee*1000/vsize, "fee rate is per 1000 VIRTUAL bytes")
	got, ok := mp.pool[*tx.Hash()]
	vAssert(ok && got == d && mp.outpoints[op] == tx, "pool and spend index updated")
	vReach("end")
}
