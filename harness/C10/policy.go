//verif:module .
//verif:pkg mempool
package mempool

import (
	"github.com/btcsuite/btcd/btcutil/v2"
	"github.com/btcsuite/btcd/chainhash/v2"
	"github.com/btcsuite/btcd/mining"
	"github.com/btcsuite/btcd/wire/v2"
)

const vMaxSatoshi = 2100000000000000

// C10(1): minimum relay fee: floor(size*rate/1000), at least `rate` when that rounds to zero, clamped to the
// money range.  Sizes up to 4,000,000 vbytes and rates up to 1 BTC/kvB (no int64 overflow).
//verif:opts reach=end intmode=1
func VH_min_relay_fee() {
	size := vNondetI64("size")
	rate := vNondetI64("rate")
	vAssume(size >= 0 && size <= 4000000 && rate >= 0 && rate <= 100000000)
	got := calcMinRequiredTxRelayFee(size, btcutil.Amount(rate))
	want := size * rate / 1000
	if want == 0 && rate > 0 {
		want = rate
	}
	if want > vMaxSatoshi {
		want = vMaxSatoshi
	}
	vAssert(got == want, "min relay fee == max(floor(size*rate/1000), rate if zero) clamped to MaxSatoshi")
	vAssert(got >= 0 && got <= vMaxSatoshi, "fee within the money range")
	vReach("end")
}

func vConcreteTx(label byte, prev wire.OutPoint, nout int) *btcutil.Tx {
	m := wire.NewMsgTx(2)
	m.AddTxIn(&wire.TxIn{PreviousOutPoint: prev, Sequence: 0xfffffffd})
	for i := 0; i < nout; i++ {
		m.AddTxOut(&wire.TxOut{Value: int64(label), PkScript: []byte{0x51}})
	}
	return btcutil.NewTx(m)
}

func vAddToPool(mp *TxPool, tx *btcutil.Tx, fee, feePerKB int64) {
	mp.pool[*tx.Hash()] = &TxDesc{TxDesc: mining.TxDesc{Tx: tx, Fee: fee, FeePerKB: feePerKB}}
	for _, in := range tx.MsgTx().TxIn {
		mp.outpoints[in.PreviousOutPoint] = tx
	}
}

// C10(2): validateReplacement on a pool holding a conflict A (spending outpoint O), its descendant B, and an
// unrelated C: an accepted replacement pays at least the evicted fees plus the relay fee for its own size, at a
// strictly higher fee rate than each evicted transaction, and evicts exactly the conflict and its descendants.
//verif:opts reach=accept,reject
func VH_validate_replacement() {
	mp := &TxPool{pool: map[chainhash.Hash]*TxDesc{}, outpoints: map[wire.OutPoint]*btcutil.Tx{}}
	rate := vNondetI64("minRelay")
	vAssume(rate >= 0 && rate <= 100000000)
	mp.cfg.Policy.MinRelayTxFee = btcutil.Amount(rate)
	var o, o2 wire.OutPoint
	o.Hash[0], o2.Hash[0] = 1, 2
	a := vConcreteTx(10, o, 1)
	b := vConcreteTx(11, wire.OutPoint{Hash: *a.Hash(), Index: 0}, 1)
	c := vConcreteTx(12, o2, 1)
	feeA, rateA := vNondetI64("feeA"), vNondetI64("rateA")
	feeB, rateB := vNondetI64("feeB"), vNondetI64("rateB")
	vAssume(feeA >= 0 && feeA <= vMaxSatoshi && feeB >= 0 && feeB <= vMaxSatoshi)
	vAssume(rateA >= 0 && rateA <= vMaxSatoshi && rateB >= 0 && rateB <= vMaxSatoshi)
	vAddToPool(mp, a, feeA, rateA)
	withB := vNondetBool("withDescendant")
	if withB {
		vAddToPool(mp, b, feeB, rateB)
	}
	vAddToPool(mp, c, 1000, 1000)
	// the replacement spends O (conflict with A) and optionally an output of the unrelated pooled C
	r := wire.NewMsgTx(2)
	r.AddTxIn(&wire.TxIn{PreviousOutPoint: o})
	spendsNewUnconfirmed := vNondetBool("spendsUnconfirmed")
	if spendsNewUnconfirmed {
		r.AddTxIn(&wire.TxIn{PreviousOutPoint: wire.OutPoint{Hash: *c.Hash(), Index: 0}})
	}
	r.AddTxOut(&wire.TxOut{Value: 1, PkScript: []byte{0x51}})
	rtx := btcutil.NewTx(r)
	fee := vNondetI64("fee")
	vAssume(fee >= 0 && fee <= vMaxSatoshi)
	evicted, err := mp.validateReplacement(rtx, fee)
	vsize := GetTxVirtualSize(rtx)
	frate := fee * 1000 / vsize
	evFee := feeA
	rateOK := frate > rateA
	if withB {
		evFee += feeB
		rateOK = rateOK && frate > rateB
	}
	want := rateOK && fee >= evFee+calcMinRequiredTxRelayFee(vsize, btcutil.Amount(rate)) && !spendsNewUnconfirmed
	vAssert((err == nil) == want, "accepted iff higher fee rate than every evicted tx, absolute fee covers evicted fees + own relay fee, no new unconfirmed input")
	if err == nil {
		n := 1
		if withB {
			n = 2
		}
		_, hasA := evicted[*a.Hash()]
		_, hasB := evicted[*b.Hash()]
		_, hasC := evicted[*c.Hash()]
		vAssert(len(evicted) == n && hasA && hasB == withB && !hasC, "evicts exactly the conflict and its descendants")
		vReach("accept")
	} else {
		vReach("reject")
	}
}
