//verif:module .
//verif:pkg blockchain
package blockchain

import (
	"github.com/btcsuite/btcd/btcutil/v2"
	"github.com/btcsuite/btcd/wire/v2"
)

// C03(3): writing a view to the database (the block-disconnect path): for one (thorough: two) outpoints in arbitrary database
// states and arbitrary view entries (absent, nil, unmodified, modified unspent, modified spent - each with or
// without the fresh flag, which in a view only says that the entry was added through AddTxOut, NOT that the
// database lacks it): afterwards an entry that is modified and spent is gone from the database, a modified unspent
// one is stored with exactly its contents, and everything else is untouched.
//verif:opts reach=end
func VH_db_put_utxo_view() {
	root := vNewBucket()
	ubI, _ := root.CreateBucket(utxoSetBucketName)
	ub := ubI.(*vBucket)
	var ops [2]wire.OutPoint
	ops[0].Hash[0], ops[1].Hash[0], ops[1].Index = 0xa1, 0xb2, 3
	view := NewUtxoViewpoint()
	var dbBefore [2]vCoin
	var kind [2]int
	var ent [2]vCoin
	nOps := 1 + vTier() // quick: one outpoint in full generality; thorough: two independent ones
	for i := 0; i < nOps; i++ {
		if vNondetBool("inDB") {
			dbBefore[i] = vMkCoin("db")
			ser, _ := serializeUtxoEntry(vEntryOf(dbBefore[i]))
			ub.kv[string(*outpointKey(ops[i]))] = ser
		}
		kind[i] = vNondetLen("viewEntry", 4)
		switch kind[i] {
		case 0: // not in the view
		case 1:
			view.entries[ops[i]] = nil
		default:
			ent[i] = vMkCoin("view")
			e := vEntryOf(ent[i])
			if kind[i] >= 3 {
				e.packedFlags |= tfModified
			}
			if kind[i] == 4 {
				e.packedFlags |= tfSpent
			}
			if vNondetBool("fresh") {
				e.packedFlags |= tfFresh
			}
			view.entries[ops[i]] = e
		}
	}
	err := dbPutUtxoView(&vTx{root}, view)
	vAssert(err == nil, "the write succeeds")
	for i := 0; i < nOps; i++ {
		ser := ub.Get(*outpointKey(ops[i]))
		var now vCoin
		if ser != nil {
			e, derr := deserializeUtxoEntry(ser)
			vAssert(derr == nil, "stored entries decode")
			now = vCoinOf(e)
		}
		switch kind[i] {
		case 4:
			vAssert(ser == nil, "a spent (modified) entry is removed from the database, fresh flag or not")
		case 3:
			vAssert(ser != nil && now == ent[i], "a modified unspent entry is stored with its contents")
		default:
			vAssert(now == dbBefore[i] && (ser != nil) == dbBefore[i].exists, "everything else is untouched")
		}
	}
	vReach("end")
}

// secp256k1 generator, uncompressed
var vGenUncompressed = []byte{0x04,
	0x79, 0xbe, 0x66, 0x7e, 0xf9, 0xdc, 0xbb, 0xac, 0x55, 0xa0, 0x62, 0x95, 0xce, 0x87, 0x0b, 0x07,
	0x02, 0x9b, 0xfc, 0xdb, 0x2d, 0xce, 0x28, 0xd9, 0x59, 0xf2, 0x81, 0x5b, 0x16, 0xf8, 0x17, 0x98,
	0x48, 0x3a, 0xda, 0x77, 0x26, 0xa3, 0xc4, 0x65, 0x5d, 0xa4, 0xfb, 0xfc, 0x0e, 0x11, 0x08, 0xa8,
	0xfd, 0x17, 0xb4, 0x48, 0xa6, 0x85, 0x54, 0x19, 0x9c, 0x47, 0xd0, 0x8f, 0xfb, 0x10, 0xd4, 0xb8}

// C03(4): the persisted form of an output reports the same script: pay-to-pubkey scripts with a compressed or
// uncompressed key, where the key is a real curve point, has the other parity, or has an X on the curve but a Y
// that is not the matching one (1-byte change), hybrid-encoded keys, and scripts that have the frame of a
// pay-to-script-hash / pay-to-pubkey-hash template around any push opcode: serialize then deserialize returns exactly the original script,
// amount, height and coinbase flag.  (Curve membership is decided exactly for these concrete keys.)
//verif:opts reach=end
func VH_persisted_pubkey_script_faithful() {
	key := append([]byte{}, vGenUncompressed...)
	var script []byte
	switch vNondetLen("form", 6) {
	case 0: // uncompressed, valid
		script = append(append([]byte{0x41}, key...), 0xac)
	case 1: // uncompressed, X valid, Y altered in one byte
		key[33+[]int{0, 15, 31}[vNondetLen("ybyte", 2)]] ^= []byte{0x01, 0x80}[vNondetLen("ybit", 1)]
		script = append(append([]byte{0x41}, key...), 0xac)
	case 2: // uncompressed, Y negated wrongly: the other root's last byte only
		key[64] ^= 0x01
		script = append(append([]byte{0x41}, key...), 0xac)
	case 3: // compressed, either parity byte
		script = append(append([]byte{0x21, 0x02 + byte(vNondetLen("parity", 1))}, key[1:33]...), 0xac)
	case 4: // hybrid encoding of the same point (0x06: matching oddness, a valid key; 0x07: the wrong oddness): a
		// parseable key but not one of the compressible templates
		key[0] = 0x06 + byte(vNondetLen("oddness", 1))
		script = append(append([]byte{0x41}, key...), 0xac)
	case 5: // 23 bytes with the pay-to-script-hash frame but any push opcode in between
		script = append(append([]byte{0xa9, vNondetU8("push")}, key[1:21]...), 0x87)
	default: // 25 bytes with the pay-to-pubkey-hash frame but any push opcode in between
		script = append(append([]byte{0x76, 0xa9, vNondetU8("push")}, key[1:21]...), 0x88, 0xac)
	}
	c := vMkCoin("coin")
	e := vEntryOf(c)
	e.pkScript = script
	ser, err := serializeUtxoEntry(e)
	vAssert(err == nil && ser != nil, "serializes")
	back, err := deserializeUtxoEntry(ser)
	vAssert(err == nil && vCoinOf(back) == c, "amount, height and coinbase flag survive")
	vAssert(len(back.PkScript()) == len(script), "script length survives")
	for i := range script {
		vAssert(back.PkScript()[i] == script[i], "the persisted output reports exactly the original script")
	}
	vReach("end")
}

// C03(5): the cache and the view agree on which outputs exist: for an output whose script is spendable, starts
// with OP_RETURN, does not parse (truncated push) or is a lone data-push opcode, utxoCache.addTxOut and
// UtxoViewpoint.AddTxOut create an entry in exactly the same cases - the provably unspendable ones (OP_RETURN or
// unparseable) are never added - so that connecting a block through the cache and disconnecting it through a view
// stay inverse.
//verif:opts reach=end
func VH_cache_and_view_agree_on_unspendable() {
	scripts := [][]byte{{0x51}, {0x6a}, {0x6a, 0x01, 0x07}, {0x02, 0x01}, {0x4c}, {0x00, 0x14, 1, 2, 3}, {}}
	s := scripts[vNondetLen("script", len(scripts)-1)]
	cache, _, ops := vSetup()
	err := cache.addTxOut(ops[0], &wire.TxOut{Value: 546, PkScript: s}, vNondetBool("coinbase"), 5)
	vAssert(err == nil, "addTxOut succeeds")
	m := wire.NewMsgTx(1)
	m.AddTxIn(&wire.TxIn{})
	m.AddTxOut(&wire.TxOut{Value: 546, PkScript: s})
	tx := btcutil.NewTx(m)
	view := NewUtxoViewpoint()
	view.AddTxOut(tx, 0, 5)
	inView := view.LookupEntry(wire.OutPoint{Hash: *tx.Hash(), Index: 0}) != nil
	inCache := vReported(cache, ops[0]).exists
	vAssert(inView == inCache, "cache and view add the same outputs")
	unspendable := (len(s) > 0 && s[0] == 0x6a) || (len(s) == 2 && s[0] == 0x02) || (len(s) == 1 && s[0] == 0x4c) || (len(s) == 5)
	vAssert(inCache == !unspendable, "provably unspendable outputs (OP_RETURN or unparseable) never enter the set")
	vReach("end")
}
