//verif:module .
//verif:pkg blockchain
package blockchain

import (
	"math/big"
	"time"

	"github.com/btcsuite/btcd/btcutil/v2"
	"github.com/btcsuite/btcd/chaincfg/v2"
	"github.com/btcsuite/btcd/chainhash/v2"
	"github.com/btcsuite/btcd/database"
	"github.com/btcsuite/btcd/wire/v2"
)

// the database is environment: every write the disconnect makes inside its one transaction is recorded, in order
type vDiscDB struct{ database.DB }

func (d *vDiscDB) View(fn func(tx database.Tx) error) error   { return fn(nil) }
func (d *vDiscDB) Update(fn func(tx database.Tx) error) error { return fn(nil) }

var vDisc struct {
	events    []string
	prevBlock *btcutil.Block
	bestPut   *BestState
	flushMode FlushMode
	flushBest chainhash.Hash
	viewPut   *UtxoViewpoint
}

func vStubDiscFetchBlock(dbTx database.Tx, node *blockNode) (*btcutil.Block, error) {
	return vDisc.prevBlock, nil
}
func vStubDiscFlushIndex(bi *blockIndex) error { return nil }
func vStubDiscPutBest(dbTx database.Tx, snapshot *BestState, workSum *big.Int) error {
	vDisc.events = append(vDisc.events, "putBestState")
	vDisc.bestPut = snapshot
	return nil
}
func vStubDiscRemoveIndex(dbTx database.Tx, hash *chainhash.Hash, height int32) error {
	vDisc.events = append(vDisc.events, "removeBlockIndex")
	return nil
}
func vStubDiscFlush(s *utxoCache, dbTx database.Tx, mode FlushMode, bestState *BestState) error {
	vDisc.events = append(vDisc.events, "flushCache")
	vDisc.flushMode, vDisc.flushBest = mode, bestState.Hash
	return nil
}
func vStubDiscPutView(dbTx database.Tx, view *UtxoViewpoint) error {
	vDisc.events = append(vDisc.events, "putUtxoView")
	vDisc.viewPut = view
	return nil
}
func vStubDiscFetchJournal(dbTx database.Tx, block *btcutil.Block) ([]SpentTxOut, error) { return nil, nil }
func vStubDiscRemoveJournal(dbTx database.Tx, blockHash *chainhash.Hash) error {
	vDisc.events = append(vDisc.events, "removeSpendJournal")
	return nil
}

// C03(6): disconnecting the tip block: inside ONE database transaction the best state is moved to the parent, the
// block leaves the height index, the UTXO cache is flushed - unconditionally (FlushRequired), whatever its last flush
// point, because everything the cache holds must reach the database BEFORE the disconnect's view is written over it -
// then the view is written and the block's spend journal removed; afterwards the chain view and the snapshot name
// the parent, with the transaction total reduced by the block's transactions.
//verif:opts reach=end noverride=chainio.go:dbFetchBlockByNode:vStubDiscFetchBlock;blockindex.go:blockIndex.flushToDB:vStubDiscFlushIndex;chainio.go:dbPutBestState:vStubDiscPutBest;chainio.go:dbRemoveBlockIndex:vStubDiscRemoveIndex;utxocache.go:utxoCache.flush:vStubDiscFlush;chainio.go:dbPutUtxoView:vStubDiscPutView;chainio.go:dbFetchSpendJournalEntry:vStubDiscFetchJournal;chainio.go:dbRemoveSpendJournalEntry:vStubDiscRemoveJournal
func VH_disconnect_block_bookkeeping() {
	params := &chaincfg.Params{}
	b := &BlockChain{chainParams: params, index: newBlockIndex(nil, params), db: &vDiscDB{}}
	b.utxoCache = &utxoCache{}
	vDisc.events = nil
	mk := func(parent *blockNode, nonce uint32, ntx int) (*blockNode, *btcutil.Block) {
		h := &wire.BlockHeader{Version: 4, Bits: 0x207fffff, Nonce: nonce, Timestamp: time.Unix(1600000000+int64(nonce), 0)}
		if parent != nil {
			h.PrevBlock = parent.hash
		}
		n := newBlockNode(h, parent)
		n.status = statusDataStored | statusValid
		b.index.AddNode(n)
		msg := &wire.MsgBlock{Header: *h}
		for i := 0; i < ntx; i++ {
			msg.AddTransaction(wire.NewMsgTx(int32(i + 1)))
		}
		return n, btcutil.NewBlock(msg)
	}
	g, _ := mk(nil, 1, 1)
	parent, parentBlock := mk(g, 2, 1+vNondetLen("parentTxs", 2))
	tip, tipBlock := mk(parent, 3, 1+vNondetLen("tipTxs", 2))
	vDisc.prevBlock = parentBlock
	b.bestChain = newChainView(tip)
	total := uint64(vNondetU32("totalTxns"))
	vAssume(total >= 10)
	b.stateSnapshot = newBestState(tip, 0, 0, 0, total, time.Unix(0, 0))
	// the cache's last flush point is arbitrary: the parent, the tip, or something older
	switch vNondetLen("lastFlushAt", 2) {
	case 0:
		b.utxoCache.lastFlushHash = parent.hash
	case 1:
		b.utxoCache.lastFlushHash = tip.hash
	default:
		b.utxoCache.lastFlushHash = g.hash
	}
	view := NewUtxoViewpoint()
	view.SetBestHash(&parent.hash)
	b.chainLock.Lock()
	err := b.disconnectBlock(tip, tipBlock, view)
	vAssert(err == nil, "disconnect succeeds")
	want := []string{"putBestState", "removeBlockIndex", "flushCache", "putUtxoView", "removeSpendJournal"}
	vAssert(len(vDisc.events) == len(want), "exactly the five writes happen")
	for i := range want {
		vAssert(vDisc.events[i] == want[i], "in this order: the cache is flushed before the disconnect's view is written")
	}
	vAssert(vDisc.flushMode == FlushRequired && vDisc.flushBest == parent.hash, "the flush is unconditional and records the parent as the consistent point")
	vAssert(vDisc.viewPut == view, "the caller's view is what is written")
	vAssert(vDisc.bestPut != nil && vDisc.bestPut.Hash == parent.hash && vDisc.bestPut.Height == parent.height, "the persisted best state names the parent")
	snap := b.BestSnapshot()
	vAssert(b.bestChain.Tip() == parent && snap.Hash == parent.hash && snap.Height == parent.height, "chain view and snapshot name the parent")
	vAssert(snap.TotalTxns == total-uint64(len(tipBlock.MsgBlock().Transactions)), "the transaction total drops by the block's transactions")
	vAssert(snap.NumTxns == uint64(len(parentBlock.MsgBlock().Transactions)), "per-block figures are the parent's")
	vReach("end")
}
