//verif:module .
//verif:pkg blockchain
package blockchain

import (
	"github.com/btcsuite/btcd/btcutil/v2"
	"github.com/btcsuite/btcd/chainhash/v2"
	"github.com/btcsuite/btcd/database"
	"github.com/btcsuite/btcd/wire/v2"
)

// ---- in-memory stand-ins for the database interfaces (only what the UTXO cache touches does anything)
type vBucket struct {
	kv   map[string][]byte
	subs map[string]*vBucket
}

func vNewBucket() *vBucket { return &vBucket{kv: map[string][]byte{}, subs: map[string]*vBucket{}} }

func (b *vBucket) Bucket(key []byte) database.Bucket {
	s, ok := b.subs[string(key)]
	if !ok {
		return nil
	}
	return s
}
func (b *vBucket) CreateBucket(key []byte) (database.Bucket, error) {
	s := vNewBucket()
	b.subs[string(key)] = s
	return s, nil
}
func (b *vBucket) CreateBucketIfNotExists(key []byte) (database.Bucket, error) {
	if s, ok := b.subs[string(key)]; ok {
		return s, nil
	}
	return b.CreateBucket(key)
}
func (b *vBucket) DeleteBucket(key []byte) error                  { delete(b.subs, string(key)); return nil }
func (b *vBucket) ForEach(func(k, v []byte) error) error          { panic("unused") }
func (b *vBucket) ForEachBucket(func(k []byte) error) error       { panic("unused") }
func (b *vBucket) Cursor() database.Cursor                        { panic("unused") }
func (b *vBucket) Writable() bool                                 { return true }
func (b *vBucket) Put(key, value []byte) error                    { b.kv[string(key)] = append([]byte{}, value...); return nil }
func (b *vBucket) Get(key []byte) []byte {
	v, ok := b.kv[string(key)]
	if !ok {
		return nil
	}
	return v
}
func (b *vBucket) Delete(key []byte) error { delete(b.kv, string(key)); return nil }

type vTx struct{ root *vBucket }

func (t *vTx) Metadata() database.Bucket                                          { return t.root }
func (t *vTx) StoreBlock(*btcutil.Block) error                                    { panic("unused") }
func (t *vTx) HasBlock(*chainhash.Hash) (bool, error)                             { panic("unused") }
func (t *vTx) HasBlocks([]chainhash.Hash) ([]bool, error)                         { panic("unused") }
func (t *vTx) FetchBlockHeader(*chainhash.Hash) ([]byte, error)                   { panic("unused") }
func (t *vTx) FetchBlockHeaders([]chainhash.Hash) ([][]byte, error)               { panic("unused") }
func (t *vTx) FetchBlock(*chainhash.Hash) ([]byte, error)                         { panic("unused") }
func (t *vTx) FetchBlocks([]chainhash.Hash) ([][]byte, error)                     { panic("unused") }
func (t *vTx) FetchBlockRegion(*database.BlockRegion) ([]byte, error)             { panic("unused") }
func (t *vTx) FetchBlockRegions([]database.BlockRegion) ([][]byte, error)         { panic("unused") }
func (t *vTx) PruneBlocks(uint64) ([]chainhash.Hash, error)                       { panic("unused") }
func (t *vTx) BeenPruned() (bool, error)                                          { panic("unused") }
func (t *vTx) Commit() error                                                      { return nil }
func (t *vTx) Rollback() error                                                    { return nil }

type vDB struct{ root *vBucket }

func (d *vDB) Type() string                                 { return "verif" }
func (d *vDB) Begin(bool) (database.Tx, error)              { return &vTx{d.root}, nil }
func (d *vDB) View(fn func(tx database.Tx) error) error     { return fn(&vTx{d.root}) }
func (d *vDB) Update(fn func(tx database.Tx) error) error   { return fn(&vTx{d.root}) }
func (d *vDB) Close() error                                 { return nil }

// ---- model: what the node reports for an outpoint
type vCoin struct {
	exists   bool
	amount   int64
	height   int32
	coinbase bool
}

func vCoinOf(e *UtxoEntry) vCoin {
	if e == nil || e.IsSpent() {
		return vCoin{}
	}
	return vCoin{true, e.Amount(), e.BlockHeight(), e.IsCoinBase()}
}

func vMkCoin(tag string) vCoin {
	h := vNondetI32(tag + ".h")
	vAssume(h >= 0 && h < 64) // one-byte header code: no fork over the VLQ length
	return vCoin{exists: true, amount: vAmounts[vNondetLen(tag+".amt", len(vAmounts)-1)], height: h, coinbase: vNondetBool(tag + ".cb")}
}

var vAmounts = []int64{546, 5000000000}

func vEntryOf(c vCoin) *UtxoEntry {
	e := &UtxoEntry{amount: c.amount, blockHeight: c.height, pkScript: []byte{0x51}}
	if c.coinbase {
		e.packedFlags |= tfCoinBase
	}
	return e
}

// arbitrary consistent (cache, database) state for one outpoint; returns the coin the node reports for it
func vMkState(tag string, op wire.OutPoint, cache *utxoCache, bucket *vBucket) vCoin {
	var db vCoin
	if vNondetBool(tag + ".inDB") {
		db = vMkCoin(tag + ".db")
		ser, _ := serializeUtxoEntry(vEntryOf(db))
		bucket.kv[string(*outpointKey(op))] = ser
	}
	switch vNondetLen(tag+".cache", 4) {
	case 0: // not cached: the database decides
		return db
	case 1: // cached as absent
		cache.cachedEntries.put(op, nil, 0)
		return vCoin{}
	case 2: // cached, unmodified: must mirror the database (representation invariant)
		if !db.exists {
			cache.cachedEntries.put(op, nil, 0)
			return vCoin{}
		}
		cache.cachedEntries.put(op, vEntryOf(db), 0)
		return db
	case 3: // cached, modified (created or changed since the last flush); fresh only if the database has none
		c := vMkCoin(tag + ".mod")
		e := vEntryOf(c)
		e.packedFlags |= tfModified
		if !db.exists && vNondetBool(tag+".fresh") {
			e.packedFlags |= tfFresh
		}
		cache.cachedEntries.put(op, e, 0)
		return c
	default: // cached, spent since the last flush
		c := vMkCoin(tag + ".spent")
		e := vEntryOf(c)
		e.packedFlags |= tfModified | tfSpent
		cache.cachedEntries.put(op, e, 0)
		return vCoin{}
	}
}

// a bystander outpoint: either only in the database or cached as modified
func vMkStateSimple(tag string, op wire.OutPoint, cache *utxoCache, bucket *vBucket) vCoin {
	c := vCoin{exists: true, amount: 546, height: 1, coinbase: vNondetBool(tag + ".cb")}
	if vNondetBool(tag + ".cached") {
		e := vEntryOf(c)
		e.packedFlags |= tfModified | tfFresh
		cache.cachedEntries.put(op, e, 0)
		return c
	}
	ser, _ := serializeUtxoEntry(vEntryOf(c))
	bucket.kv[string(*outpointKey(op))] = ser
	return c
}

func vReported(cache *utxoCache, op wire.OutPoint) vCoin {
	es, err := cache.fetchEntries([]wire.OutPoint{op})
	if err != nil || len(es) != 1 {
		return vCoin{exists: true, amount: -1}
	}
	return vCoinOf(es[0])
}

func vSetup() (*utxoCache, *vBucket, []wire.OutPoint) {
	root := vNewBucket()
	ub, _ := root.CreateBucket(utxoSetBucketName)
	cache := newUtxoCache(&vDB{root}, 1<<20)
	var a, b wire.OutPoint
	a.Hash[0], b.Hash[0], b.Index = 0xa1, 0xb2, 3
	return cache, ub.(*vBucket), []wire.OutPoint{a, b}
}

// C03(2a): flushing the cache never changes what the node reports: from an arbitrary consistent state of two
// outpoints (not cached / cached absent / cached clean / cached modified or fresh / cached spent, over an
// arbitrary database state) writeCache leaves the reported coin of every outpoint unchanged, empties the cache
// and persists exactly the reported set.
//verif:opts reach=end
func VH_cache_flush_preserves_utxo_set() {
	cache, bucket, ops := vSetup()
	want := []vCoin{vMkState("A", ops[0], cache, bucket), vMkState("B", ops[1], cache, bucket)}
	for i := range ops {
		vAssert(vReported(cache, ops[i]) == want[i], "harness state reports the intended coin")
	}
	var best BestState
	best.Hash[0] = 0x99
	err := cache.writeCache(&vTx{cache.db.(*vDB).root}, &best)
	vAssert(err == nil, "flush succeeds")
	vAssert(cache.cachedEntries.length() == 0 && cache.totalEntryMemory == 0, "the cache is empty after a flush")
	for i := range ops {
		ser := bucket.Get(*outpointKey(ops[i]))
		if want[i].exists {
			vAssert(ser != nil, "every reported coin is persisted")
			e, derr := deserializeUtxoEntry(ser)
			vAssert(derr == nil && vCoinOf(e) == want[i], "the persisted coin equals the reported coin")
		} else {
			vAssert(ser == nil, "coins that are not reported are not persisted")
		}
		vAssert(vReported(cache, ops[i]) == want[i], "what the node reports is unchanged by the flush")
	}
	vAssert(cache.lastFlushHash == best.Hash, "the flush records the chain tip it corresponds to")
	vReach("end")
}

// C03(2b): creating and spending outputs through the cache: from an arbitrary consistent state, addTxOut makes the
// new output the reported coin, addTxIn makes the spent output unreported and yields its undo record; the other
// outpoint is unaffected; a later flush persists exactly that.
//verif:opts reach=end
func VH_cache_add_and_spend() {
	cache, bucket, ops := vSetup()
	want := []vCoin{vMkState("A", ops[0], cache, bucket), vMkStateSimple("B", ops[1], cache, bucket)}
	spendA := vNondetBool("spendA")
	if spendA {
		var stxos []SpentTxOut
		// callers establish that the input exists and is unspent (CheckTransactionInputs) before spending it
		vAssume(want[0].exists)
		err := cache.addTxIn(&wire.TxIn{PreviousOutPoint: ops[0]}, &stxos)
		{
			vAssert(err == nil && len(stxos) == 1, "one undo record")
			vAssert(stxos[0].Amount == want[0].amount && stxos[0].Height == want[0].height && stxos[0].IsCoinBase == want[0].coinbase,
				"the undo record describes the spent coin")
			want[0] = vCoin{}
		}
	} else {
		nc := vMkCoin("new")
		err := cache.addTxOut(ops[0], &wire.TxOut{Value: nc.amount, PkScript: []byte{0x51}}, nc.coinbase, nc.height)
		vAssert(err == nil, "addTxOut succeeds")
		want[0] = nc
	}
	for i := range ops {
		vAssert(vReported(cache, ops[i]) == want[i], "reported coins after the operation")
	}
	var best BestState
	vAssert(cache.writeCache(&vTx{cache.db.(*vDB).root}, &best) == nil, "flush succeeds")
	for i := range ops {
		vAssert(vReported(cache, ops[i]) == want[i], "reported coins after the flush")
		vAssert((bucket.Get(*outpointKey(ops[i])) != nil) == want[i].exists, "persisted set == reported set")
	}
	vReach("end")
}
