//verif:module .
//verif:pkg blockchain
package blockchain

import (
	"github.com/btcsuite/btcd/btcutil/v2"
	"github.com/btcsuite/btcd/wire/v2"
)

// C03(1): connect / disconnect of one block on a view are inverse: a block [coinbase, tx] whose tx spends 1..2
// outputs held by the view with arbitrary (symbolic) amount, creating height, coinbase flag and script byte.
// After connectTransactions: inputs spent, outputs created with the block height and coinbase flag, one undo
// record per input in spend order.  After disconnectTransactions with those records: every input restored field
// for field and unspent, every created output spent, best hash back at the parent.
//verif:opts reach=end
func VH_view_connect_disconnect_inverse() {
	view := NewUtxoViewpoint()
	nin := 1 + vNondetLen("nin", 1)
	type orig struct {
		amount   int64
		height   int32
		coinbase bool
		script   byte
	}
	origs := make([]orig, nin)
	ops := make([]wire.OutPoint, nin)
	spend := wire.NewMsgTx(1)
	for i := 0; i < nin; i++ {
		ops[i].Hash[0] = byte(0x10 + i)
		ops[i].Index = uint32(i)
		o := orig{amount: vNondetI64("amount"), height: vNondetI32("height"), coinbase: vNondetBool("coinbase"), script: vNondetU8("script")}
		vAssume(o.height > 0) // height 0 is the legacy-journal marker that needs a database lookup (outside)
		origs[i] = o
		e := &UtxoEntry{amount: o.amount, pkScript: []byte{o.script}, blockHeight: o.height}
		if o.coinbase {
			e.packedFlags |= tfCoinBase
		}
		view.entries[ops[i]] = e
		spend.AddTxIn(&wire.TxIn{PreviousOutPoint: ops[i]})
	}
	nout := 1 + vNondetLen("nout", 1)
	unspendableSecond := vNondetBool("opreturn")
	for i := 0; i < nout; i++ {
		pk := []byte{0x51}
		if i == 1 && unspendableSecond {
			pk = []byte{0x6a}
		}
		spend.AddTxOut(&wire.TxOut{Value: int64(100 + i), PkScript: pk})
	}
	cb := wire.NewMsgTx(1)
	cb.AddTxIn(&wire.TxIn{PreviousOutPoint: wire.OutPoint{Index: 0xffffffff}, SignatureScript: []byte{1, 2}})
	cb.AddTxOut(&wire.TxOut{Value: 50, PkScript: []byte{0x52}})
	mb := &wire.MsgBlock{}
	mb.Header.PrevBlock[0] = 0x77
	mb.Transactions = []*wire.MsgTx{cb, spend}
	blk := btcutil.NewBlock(mb)
	bh := int32(1 + vNondetLen("blockHeight", 3))
	blk.SetHeight(bh)

	var stxos []SpentTxOut
	err := view.connectTransactions(blk, &stxos)
	vAssert(err == nil, "connect succeeds when every input is in the view")
	vAssert(len(stxos) == nin, "one undo record per spent input")
	for i := 0; i < nin; i++ {
		vAssert(stxos[i].Amount == origs[i].amount && stxos[i].Height == origs[i].height &&
			stxos[i].IsCoinBase == origs[i].coinbase && len(stxos[i].PkScript) == 1 && stxos[i].PkScript[0] == origs[i].script,
			"undo record i describes input i (spend order)")
		e := view.LookupEntry(ops[i])
		vAssert(e != nil && e.IsSpent(), "input is spent after connect")
	}
	txs := blk.Transactions()
	for ti, tx := range txs {
		for oi, out := range tx.MsgTx().TxOut {
			e := view.LookupEntry(wire.OutPoint{Hash: *tx.Hash(), Index: uint32(oi)})
			if out.PkScript[0] == 0x6a {
				vAssert(e == nil, "provably unspendable outputs are not added")
				continue
			}
			vAssert(e != nil && !e.IsSpent() && e.Amount() == out.Value && e.BlockHeight() == bh && e.IsCoinBase() == (ti == 0),
				"created output is unspent with the block height and coinbase flag")
		}
	}
	vAssert(*view.BestHash() == *blk.Hash(), "best hash is the connected block")

	err = view.disconnectTransactions(nil, blk, stxos)
	vAssert(err == nil, "disconnect succeeds")
	for i := 0; i < nin; i++ {
		e := view.LookupEntry(ops[i])
		vAssert(e != nil && !e.IsSpent(), "input is unspent again after disconnect")
		vAssert(e.Amount() == origs[i].amount && e.BlockHeight() == origs[i].height && e.IsCoinBase() == origs[i].coinbase &&
			len(e.PkScript()) == 1 && e.PkScript()[0] == origs[i].script, "input restored field for field")
		vAssert(e.isModified(), "restored entry is marked modified so that it is flushed")
	}
	for _, tx := range txs {
		for oi, out := range tx.MsgTx().TxOut {
			e := view.LookupEntry(wire.OutPoint{Hash: *tx.Hash(), Index: uint32(oi)})
			if out.PkScript[0] == 0x6a {
				continue
			}
			vAssert(e != nil && e.IsSpent(), "outputs created by the block are spent after disconnect")
		}
	}
	vAssert(*view.BestHash() == mb.Header.PrevBlock, "best hash is back at the parent")
	vReach("end")
}
