//verif:module .
//verif:pkg blockchain
package blockchain

import (
	"time"

	"github.com/btcsuite/btcd/btcutil/v2"
	"github.com/btcsuite/btcd/wire/v2"
)

func vCoinbaseTx(tag byte) *wire.MsgTx {
	m := wire.NewMsgTx(1)
	m.AddTxIn(&wire.TxIn{PreviousOutPoint: wire.OutPoint{Index: 0xffffffff}, SignatureScript: []byte{tag, 1}, Sequence: 0xffffffff})
	m.AddTxOut(&wire.TxOut{Value: 50, PkScript: []byte{0x51}})
	return m
}

func vSpendTx(tag byte, nMultisig int) *wire.MsgTx {
	m := wire.NewMsgTx(1)
	var op wire.OutPoint
	op.Hash[0] = tag
	m.AddTxIn(&wire.TxIn{PreviousOutPoint: op})
	pk := make([]byte, nMultisig)
	for i := range pk {
		pk[i] = 0xae // OP_CHECKMULTISIG: 20 legacy sigops each
	}
	m.AddTxOut(&wire.TxOut{Value: 1, PkScript: pk})
	return m
}

// C01(6): checkBlockSanity structure rules on blocks of 0..3 transactions (proof of work disabled, valid time):
// empty block, first transaction not a coinbase, a second coinbase, bad merkle root, duplicate transaction and the
// signature-operation limit (accepted at exactly 80000, rejected above) - with the error code of the first
// violated rule.
//verif:opts reach=accept,reject
func VH_check_block_sanity() {
	ntx := vNondetLen("ntx", 3)
	firstCoinbase := vNondetBool("firstIsCoinbase")
	secondCoinbase := vNondetBool("secondIsCoinbase")
	dup := vNondetBool("duplicateLast")
	heavy := vNondetLen("sigopShape", 2) // 0: light, 1: exactly at the limit, 2: one CHECKMULTISIG over
	var txs []*wire.MsgTx
	for i := 0; i < ntx; i++ {
		switch {
		case i == 0 && firstCoinbase:
			txs = append(txs, vCoinbaseTx(1))
		case i == 1 && secondCoinbase:
			txs = append(txs, vCoinbaseTx(2))
		case i == 2 && dup:
			txs = append(txs, txs[1].Copy())
		default:
			n := 1
			if i == 1 && heavy == 1 {
				n = 1000 - 0
			}
			if i == 1 && heavy == 2 {
				n = 1001
			}
			txs = append(txs, vSpendTx(byte(0x20+i), n))
		}
	}
	mb := &wire.MsgBlock{Transactions: txs}
	mb.Header.Bits = 0x207fffff
	mb.Header.Timestamp = time.Unix(1000, 0)
	blk := btcutil.NewBlock(mb)
	if ntx > 0 {
		mb.Header.MerkleRoot = CalcMerkleRoot(blk.Transactions(), false)
	}
	badRoot := vNondetBool("badMerkleRoot")
	if badRoot {
		mb.Header.MerkleRoot[31] ^= vNondetU8("flip") | 1
	}
	err := checkBlockSanity(blk, CompactToBig(0x207fffff), vClock{time.Unix(2000, 0)}, BFNoPoWCheck)
	// ---- specification (CheckBlock), in order
	want := ErrorCode(-1)
	sigops := 0
	for i, m := range txs {
		_ = i
		for _, o := range m.TxOut {
			for _, b := range o.PkScript {
				if b == 0xae {
					sigops += 20
				}
			}
		}
	}
	switch {
	case ntx == 0:
		want = ErrNoTransactions
	case !firstCoinbase:
		want = ErrFirstTxNotCoinbase
	case ntx >= 2 && secondCoinbase:
		want = ErrMultipleCoinbases
	case badRoot:
		want = ErrBadMerkleRoot
	case ntx == 3 && dup && !secondCoinbase:
		want = ErrDuplicateTx
	case sigops*4 > 80000:
		want = ErrTooManySigOps
	}
	if want == -1 {
		vAssert(err == nil, "a block passing every structural rule is accepted")
		vReach("accept")
		return
	}
	re, ok := err.(RuleError)
	vAssert(err != nil && ok && re.ErrorCode == want, "rejected with the code of the first violated rule")
	vReach("reject")
}
