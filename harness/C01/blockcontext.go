//verif:module .
//verif:pkg blockchain
package blockchain

import (
	"time"

	"github.com/btcsuite/btcd/btcutil/v2"
	"github.com/btcsuite/btcd/chaincfg/v2"
	"github.com/btcsuite/btcd/wire/v2"
)

// the header-context rules are decided by VH_header_context; the BIP9 state of a deployment by the C14 harnesses:
// here both are inputs (any state), so that the composition of the block-context rules is what is decided
var vCtxCSV, vCtxSegwit ThresholdState

func vStubHeaderContextOK(header *wire.BlockHeader, prevNode HeaderCtx, flags BehaviorFlags, c ChainCtx, skipCheckpoint bool) error {
	return nil
}
func vStubDeploymentState(b *BlockChain, prevNode *blockNode, deploymentID uint32) (ThresholdState, error) {
	if deploymentID == chaincfg.DeploymentCSV {
		return vCtxCSV, nil
	}
	return vCtxSegwit, nil
}

// C01(7): checkBlockContext, the rules that depend on the block's position: every transaction is final at the
// block's height and at the block's own timestamp - or, once CSV is active, at the median time past of the parent;
// blocks of version >= 2 at or above the BIP34 height start their coinbase script with the block height; once segwit
// is active the witness commitment is validated and the weight limit applies.  Parent chain of 1..3 blocks with
// arbitrary timestamps, arbitrary deployment states, header version and time, transaction lock time / sequence,
// coinbase height push, and an optional (bogus) witness commitment output.  Which rule fires first is compared.
//verif:opts reach=accept,unfinal,badheight,badcommit noverride=validate.go:CheckBlockHeaderContext:vStubHeaderContextOK;thresholdstate.go:BlockChain.deploymentState:vStubDeploymentState
func VH_check_block_context() {
	params := chaincfg.MainNetParams
	params.BIP0034Height = int32(vNondetU8("bip34Height"))
	b := &BlockChain{chainParams: &params}
	vCtxCSV = ThresholdState(vNondetU8("csvState"))
	vCtxSegwit = ThresholdState(vNondetU8("segwitState"))
	vAssume(vCtxCSV <= ThresholdFailed && vCtxSegwit <= ThresholdFailed)
	// parent chain with arbitrary (not necessarily monotone) timestamps
	nPrev := 1 + vNondetLen("nPrev", 2)
	var prev *blockNode
	ts := make([]int64, nPrev)
	for i := 0; i < nPrev; i++ {
		ts[i] = 1600000000 + int64(vNondetU16("parentTime"))
		n := &blockNode{parent: prev, timestamp: ts[i], height: int32(i)}
		n.hash[0] = byte(i + 1)
		prev = n
	}
	height := prev.height + 1
	blockTime := 1600000000 + int64(vNondetU16("blockTime"))
	hdr := wire.BlockHeader{Version: int32(vNondetU8("version")), Timestamp: time.Unix(blockTime, 0), PrevBlock: prev.hash}
	// coinbase: script = push of a small height (as a small-int opcode or a 1-byte push) + one filler byte
	cb := wire.NewMsgTx(1)
	claimed := int32(vNondetU8("claimedHeight"))
	vAssume(claimed >= 1 && claimed <= 16)
	cbScript := []byte{0x50 + byte(claimed), 0xff} // OP_1..OP_16: the minimal encoding of heights 1..16
	cb.AddTxIn(&wire.TxIn{PreviousOutPoint: wire.OutPoint{Index: 0xffffffff}, SignatureScript: cbScript, Sequence: 0xffffffff})
	cb.AddTxOut(&wire.TxOut{Value: 1, PkScript: []byte{0x51}})
	bogusCommit := vNondetBool("bogusCommitment")
	if bogusCommit {
		// a commitment output (OP_RETURN 0x24 aa21a9ed || 32 bytes) that cannot match: the coinbase has no witness nonce
		s := append([]byte{0x6a, 0x24, 0xaa, 0x21, 0xa9, 0xed}, make([]byte, 32)...)
		cb.AddTxOut(&wire.TxOut{Value: 0, PkScript: s})
	}
	tx := wire.NewMsgTx(2)
	var op wire.OutPoint
	op.Hash[0] = 9
	seq := uint32(0xffffffff)
	if vNondetBool("nonFinalSequence") {
		seq = 0xfffffffe
	}
	tx.AddTxIn(&wire.TxIn{PreviousOutPoint: op, Sequence: seq})
	tx.AddTxOut(&wire.TxOut{Value: 1, PkScript: []byte{0x51}})
	byTime := vNondetBool("lockByTime")
	if byTime {
		tx.LockTime = uint32(1600000000 + int64(vNondetU16("lockTime")))
	} else {
		tx.LockTime = uint32(vNondetU8("lockHeight"))
	}
	msg := &wire.MsgBlock{Header: hdr}
	msg.AddTransaction(cb)
	msg.AddTransaction(tx)
	block := btcutil.NewBlock(msg)
	err := b.checkBlockContext(block, prev, BFNone)

	// ---- reference
	// median time past of the parent: sort the (<= 11) timestamps, take element n/2
	sorted := append([]int64{}, ts...)
	for i := 0; i < len(sorted); i++ {
		for j := i + 1; j < len(sorted); j++ {
			if sorted[j] < sorted[i] {
				sorted[i], sorted[j] = sorted[j], sorted[i]
			}
		}
	}
	cutoff := blockTime
	if vCtxCSV == ThresholdActive {
		cutoff = sorted[len(sorted)/2]
	}
	final := tx.LockTime == 0 || seq == 0xffffffff
	if !final {
		if byTime {
			final = int64(tx.LockTime) < cutoff
		} else {
			final = int64(tx.LockTime) < int64(height)
		}
	}
	needHeight := hdr.Version >= 2 && height >= params.BIP0034Height
	re, isRule := err.(RuleError)
	switch {
	case !final:
		vAssert(isRule && re.ErrorCode == ErrUnfinalizedTx, "a non-final transaction makes the block invalid (first rule)")
		vReach("unfinal")
	case needHeight && claimed != height:
		vAssert(isRule && re.ErrorCode == ErrBadCoinbaseHeight, "BIP34: the coinbase must start with the block height")
		vReach("badheight")
	case vCtxSegwit == ThresholdActive && bogusCommit:
		vAssert(err != nil, "with segwit active a witness commitment that does not match is rejected")
		vReach("badcommit")
	default:
		vAssert(err == nil, "a block satisfying the contextual rules is accepted")
		vReach("accept")
	}
}
