//verif:module .
//verif:pkg blockchain
package blockchain

import (
	"github.com/btcsuite/btcd/btcutil/v2"
	"github.com/btcsuite/btcd/chaincfg/v2"
	"github.com/btcsuite/btcd/wire/v2"
)

const vMaxSatoshi = 2100000000000000

func vErrCode(err error) (ErrorCode, bool) {
	if err == nil {
		return 0, false
	}
	re, ok := err.(RuleError)
	if !ok {
		return 0, false
	}
	return re.ErrorCode, true
}

// outpoints: one of two concrete hashes (all-zero or a label) and a symbolic index, so that null and duplicate
// outpoints are reachable without a hash collision question
func vMkOutPoint() wire.OutPoint {
	var op wire.OutPoint
	if vNondetBool("nonzerohash") {
		op.Hash[0] = 7
	}
	op.Index = vNondetU32("previdx")
	return op
}

// C01(1): CheckTransactionSanity == Bitcoin Core CheckTransaction on <= 2 inputs / <= 2 outputs with
// symbolic values, outpoints and coinbase script length; the error code is compared, not only accept/reject.
//verif:opts reach=accept,reject
func VH_check_transaction_sanity() {
	nin := vNondetLen("nin", 2)
	nout := vNondetLen("nout", 2)
	m := wire.NewMsgTx(1)
	for i := 0; i < nin; i++ {
		sl := 1
		if i == 0 {
			sl = []int{0, 1, 2, 3, 100, 101}[vNondetLen("sslen", 5)]
		}
		m.AddTxIn(&wire.TxIn{PreviousOutPoint: vMkOutPoint(), SignatureScript: make([]byte, sl)})
	}
	for i := 0; i < nout; i++ {
		m.AddTxOut(&wire.TxOut{Value: vNondetI64("value")})
	}
	err := CheckTransactionSanity(btcutil.NewTx(m))
	code, isRule := vErrCode(err)
	// ---- specification (consensus/tx_check.cpp), in the order of the checks
	want := ErrorCode(-1)
	switch {
	case nin == 0:
		want = ErrNoTxInputs
	case nout == 0:
		want = ErrNoTxOutputs
	}
	if want == -1 {
		total := int64(0)
		for i := 0; i < nout && want == -1; i++ {
			v := m.TxOut[i].Value
			if v < 0 || v > vMaxSatoshi {
				want = ErrBadTxOutValue
				break
			}
			total += v // cannot overflow: both operands are within [0, MaxSatoshi]
			if total > vMaxSatoshi {
				want = ErrBadTxOutValue
			}
		}
	}
	if want == -1 && nin == 2 && m.TxIn[0].PreviousOutPoint == m.TxIn[1].PreviousOutPoint {
		want = ErrDuplicateTxInputs
	}
	if want == -1 {
		null0 := m.TxIn[0].PreviousOutPoint.Index == 0xffffffff && m.TxIn[0].PreviousOutPoint.Hash[0] == 0
		if nin == 1 && null0 {
			sl := len(m.TxIn[0].SignatureScript)
			if sl < 2 || sl > 100 {
				want = ErrBadCoinbaseScriptLen
			}
		} else {
			for i := 0; i < nin; i++ {
				op := m.TxIn[i].PreviousOutPoint
				if op.Index == 0xffffffff && op.Hash[0] == 0 {
					want = ErrBadTxInput
				}
			}
		}
	}
	if want == -1 {
		vAssert(err == nil, "a transaction passing every rule is accepted")
		vReach("accept")
		return
	}
	vAssert(err != nil && isRule, "a rule violation is rejected with a RuleError")
	vAssert(code == want, "error code names the first violated rule")
	vReach("reject")
}

// C01(2): CheckTransactionInputs == Consensus::CheckTxInputs with a view of <= 2 entries: missing / spent inputs,
// coinbase maturity, input ranges, in >= out, fee = in - out.
//verif:opts reach=accept,reject
func VH_check_transaction_inputs() {
	nin := 1 + vNondetLen("nin", 1)
	m := wire.NewMsgTx(1)
	view := NewUtxoViewpoint()
	type ent struct {
		present, spent, coinbase bool
		amount                    int64
		height                    int32
	}
	ents := make([]ent, nin)
	for i := 0; i < nin; i++ {
		var op wire.OutPoint
		op.Hash[0] = byte(1 + i)
		op.Index = uint32(i)
		m.AddTxIn(&wire.TxIn{PreviousOutPoint: op})
		e := ent{present: vNondetBool("present"), spent: vNondetBool("spent"), coinbase: vNondetBool("coinbase"),
			amount: vNondetI64("amount"), height: vNondetI32("originHeight")}
		ents[i] = e
		if e.present {
			ue := &UtxoEntry{amount: e.amount, blockHeight: e.height}
			if e.spent {
				ue.packedFlags |= tfSpent
			}
			if e.coinbase {
				ue.packedFlags |= tfCoinBase
			}
			view.entries[op] = ue
		}
	}
	nout := 1 + vNondetLen("nout", 1)
	outTotal := int64(0)
	for i := 0; i < nout; i++ {
		v := vNondetI64("out")
		vAssume(v >= 0 && v <= vMaxSatoshi) // CheckTransactionSanity runs first
		outTotal += v
		m.AddTxOut(&wire.TxOut{Value: v})
	}
	vAssume(outTotal <= vMaxSatoshi)
	txHeight := vNondetI32("txHeight")
	maturity := uint16(vNondetU16("maturity"))
	vAssume(txHeight >= 0)
	params := &chaincfg.Params{CoinbaseMaturity: maturity}
	fee, err := CheckTransactionInputs(btcutil.NewTx(m), txHeight, view, params)
	code, _ := vErrCode(err)
	// ---- specification
	want := ErrorCode(-1)
	inTotal := int64(0)
	for i := 0; i < nin && want == -1; i++ {
		e := ents[i]
		switch {
		case !e.present || e.spent:
			want = ErrMissingTxOut
		case e.coinbase && int64(txHeight)-int64(e.height) < int64(maturity) && e.height >= 0:
			want = ErrImmatureSpend
		case e.amount < 0 || e.amount > vMaxSatoshi:
			want = ErrBadTxOutValue
		default:
			inTotal += e.amount
			if inTotal > vMaxSatoshi {
				want = ErrBadTxOutValue
			}
		}
	}
	for i := 0; i < nin; i++ {
		vAssume(ents[i].height >= 0) // block heights of real outputs are non-negative
	}
	if want == -1 && inTotal < outTotal {
		want = ErrSpendTooHigh
	}
	if want == -1 {
		vAssert(err == nil, "inputs satisfying every rule are accepted")
		vAssert(fee == inTotal-outTotal && fee >= 0, "fee == inputs - outputs and is non-negative")
		vReach("accept")
		return
	}
	vAssert(err != nil && code == want, "rejected with the code of the first violated rule")
	vReach("reject")
}
