//verif:module .
//verif:pkg blockchain
package blockchain

import (
	"math/big"
	"time"

	"github.com/btcsuite/btcd/chaincfg/v2"
	"github.com/btcsuite/btcd/chainhash/v2"
	"github.com/btcsuite/btcd/wire/v2"
)

type vClock struct{ now time.Time }

func (c vClock) AdjustedTime() time.Time        { return c.now }
func (c vClock) AddTimeSample(string, time.Time) {}
func (c vClock) Offset() time.Duration           { return 0 }

// C01(4): CheckBlockHeaderSanity (proof-of-work check disabled): rejects sub-second timestamps and accepts exactly
// timestamps up to two hours after the adjusted network time.
//verif:opts reach=accept,reject
func VH_header_sanity_time() {
	ts := vNondetI64("ts")
	nsec := vNondetI64("nsec")
	now := vNondetI64("now")
	vAssume(ts >= 0 && ts < 1<<40 && now >= 0 && now < 1<<40 && nsec >= 0 && nsec < 1000000000)
	hdr := &wire.BlockHeader{Bits: 0x207fffff, Timestamp: time.Unix(ts, nsec)}
	err := CheckBlockHeaderSanity(hdr, CompactToBig(0x207fffff), vClock{time.Unix(now, 0)}, BFNoPoWCheck)
	want := nsec == 0 && ts <= now+7200
	vAssert((err == nil) == want, "accepted iff whole-second timestamp and not more than 2h after adjusted time")
	if err != nil {
		re, ok := err.(RuleError)
		vAssert(ok && ((nsec != 0 && re.ErrorCode == ErrInvalidTime) || (nsec == 0 && re.ErrorCode == ErrTimeTooNew)), "error code names the violated rule")
		vReach("reject")
	} else {
		vReach("accept")
	}
}

type vHdrCtx struct {
	height int32
	bits   uint32
	ts     int64
	parent *vHdrCtx
}

func (h *vHdrCtx) Height() int32    { return h.height }
func (h *vHdrCtx) Bits() uint32     { return h.bits }
func (h *vHdrCtx) Timestamp() int64 { return h.ts }
func (h *vHdrCtx) Parent() HeaderCtx {
	if h.parent == nil {
		return nil
	}
	return h.parent
}
func (h *vHdrCtx) RelativeAncestorCtx(int32) HeaderCtx { return nil }

type vChain struct {
	params      *chaincfg.Params
	checkpoint  *vHdrCtx
	verifyOK    bool
}

func (c *vChain) ChainParams() *chaincfg.Params                     { return c.params }
func (c *vChain) BlocksPerRetarget() int32                          { return 2016 }
func (c *vChain) MinRetargetTimespan() int64                        { return 302400 }
func (c *vChain) MaxRetargetTimespan() int64                        { return 4838400 }
func (c *vChain) VerifyCheckpoint(int32, *chainhash.Hash) bool      { return c.verifyOK }
func (c *vChain) FindPreviousCheckpoint() (HeaderCtx, error) {
	if c.checkpoint == nil {
		return nil, nil
	}
	return c.checkpoint, nil
}

// C01(5): CheckBlockHeaderContext off the retarget boundary through harness HeaderCtx / ChainCtx: the bits must
// equal the parent's, the timestamp must be strictly after the median time past of the last (up to) 3 blocks,
// old versions are rejected from their activation heights on, a checkpoint mismatch and a fork before the last
// checkpoint are rejected - heights, versions, timestamps and activation heights symbolic.
//verif:opts reach=accept,reject
func VH_header_context() {
	params := &chaincfg.Params{PowLimit: big.NewInt(1), PowLimitBits: 0x207fffff, BIP0034Height: vNondetI32("h34"),
		BIP0066Height: vNondetI32("h66"), BIP0065Height: vNondetI32("h65")}
	vAssume(params.BIP0034Height >= 0 && params.BIP0066Height >= 0 && params.BIP0065Height >= 0)
	n := 1 + vNondetLen("nAncestors", 2)
	h0 := vNondetI32("h0")
	vAssume(h0 >= 0 && h0 < 1<<30)
	var prev *vHdrCtx
	tss := make([]int64, 0, n)
	for i := 0; i < n; i++ {
		t := vNondetI64("ts")
		vAssume(t >= 0 && t < 1<<40)
		tss = append(tss, t)
		prev = &vHdrCtx{height: h0 + int32(i), bits: 0x1c123456, ts: t, parent: prev}
	}
	height := prev.height + 1
	vAssume(height%2016 != 0) // the boundary formula is decided under C09
	c := &vChain{params: params, verifyOK: vNondetBool("checkpointMatches")}
	if vNondetBool("hasCheckpoint") {
		c.checkpoint = &vHdrCtx{height: vNondetI32("cpHeight")}
	}
	hts := vNondetI64("headerTs")
	vAssume(hts >= 0 && hts < 1<<40)
	hdr := &wire.BlockHeader{Version: vNondetI32("version"), Bits: vNondetU32("bits"), Timestamp: time.Unix(hts, 0)}
	skip := vNondetBool("skipCheckpoint")
	err := CheckBlockHeaderContext(hdr, prev, BFNone, c, skip)
	// ---- specification (ContextualCheckBlockHeader)
	// median of the (up to 3 here) previous timestamps, rank n/2
	sorted := append([]int64{}, tss...)
	for i := 0; i < len(sorted); i++ {
		for j := i + 1; j < len(sorted); j++ {
			if sorted[j] < sorted[i] {
				sorted[i], sorted[j] = sorted[j], sorted[i]
			}
		}
	}
	mtp := sorted[len(sorted)/2]
	want := ErrorCode(-1)
	switch {
	case hdr.Bits != prev.bits:
		want = ErrUnexpectedDifficulty
	case hts <= mtp:
		want = ErrTimeTooOld
	case (hdr.Version < 2 && height >= params.BIP0034Height) || (hdr.Version < 3 && height >= params.BIP0066Height) ||
		(hdr.Version < 4 && height >= params.BIP0065Height):
		want = ErrBlockVersionTooOld
	case skip:
	case !c.verifyOK:
		want = ErrBadCheckpoint
	case c.checkpoint != nil && height < c.checkpoint.height:
		want = ErrForkTooOld
	}
	if want == -1 {
		vAssert(err == nil, "a header satisfying every contextual rule is accepted")
		vReach("accept")
		return
	}
	re, ok := err.(RuleError)
	vAssert(err != nil && ok && re.ErrorCode == want, "rejected with the code of the first violated rule")
	vReach("reject")
}
