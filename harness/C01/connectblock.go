//verif:module .
//verif:pkg blockchain
package blockchain

import (
	"github.com/btcsuite/btcd/btcutil/v2"
	"github.com/btcsuite/btcd/chaincfg/v2"
	"github.com/btcsuite/btcd/txscript/v2"
	"github.com/btcsuite/btcd/wire/v2"
)

// environment of checkConnectBlock: the inputs are already in the view (fetching them from the cache / database is
// stubbed), script execution is stubbed and records the flags it was asked to enforce, BIP9 states are inputs, the
// BIP30 database lookup is stubbed.  Each of those has its own harness (C03 view/cache, C06/C07 scripts, C14 BIP9).
var vCB struct {
	segwit, csv, taproot ThresholdState
	scriptsRun           int
	scriptFlags          txscript.ScriptFlags
	scriptsFail          bool
}

func vStubFetchInputUtxos(view *UtxoViewpoint, cache *utxoCache, block *btcutil.Block) error { return nil }
func vStubCheckBIP0030(b *BlockChain, node *blockNode, block *btcutil.Block, view *UtxoViewpoint) error {
	return nil
}
func vStubDeploymentStateCB(b *BlockChain, prevNode *blockNode, deploymentID uint32) (ThresholdState, error) {
	switch deploymentID {
	case chaincfg.DeploymentSegwit:
		return vCB.segwit, nil
	case chaincfg.DeploymentCSV:
		return vCB.csv, nil
	}
	return vCB.taproot, nil
}
func vStubCheckBlockScripts(block *btcutil.Block, utxoView *UtxoViewpoint, scriptFlags txscript.ScriptFlags,
	sigCache *txscript.SigCache, hashCache *txscript.HashCache) error {
	vCB.scriptsRun++
	vCB.scriptFlags = scriptFlags
	if vCB.scriptsFail {
		return ruleError(ErrScriptValidation, "stub: script failed")
	}
	return nil
}

// C01(8): checkConnectBlock accounting and wiring on a block [coinbase, tx]: the transaction spends one view entry
// (arbitrary amount, mature, unspent) and pays arbitrary amounts; the coinbase pays an arbitrary amount at an
// arbitrary height around a subsidy halving.  The block connects iff outputs <= inputs, coinbase <= subsidy(height)
// + fee and the scripts pass; the error names the first violated rule; scripts run exactly once with exactly the
// flags the block's time, version, height and deployment states call for; on success the view's best hash moves to
// the block, the input is spent with a correct undo record and the new outputs exist.
//verif:opts reach=accept,overspend,badcoinbase,scriptfail noverride=utxoviewpoint.go:UtxoViewpoint.fetchInputUtxos:vStubFetchInputUtxos;validate.go:BlockChain.checkBIP0030:vStubCheckBIP0030;thresholdstate.go:BlockChain.deploymentState:vStubDeploymentStateCB;scriptval.go:checkBlockScripts:vStubCheckBlockScripts
func VH_check_connect_block_accounting() {
	params := chaincfg.RegressionNetParams // halving every 150 blocks
	params.BIP0066Height = int32(vNondetU8("bip66Height"))
	params.BIP0065Height = int32(vNondetU8("bip65Height"))
	b := &BlockChain{chainParams: &params}
	vCB.segwit = ThresholdState(vNondetU8("segwitState"))
	vCB.csv = ThresholdState(vNondetU8("csvState"))
	vCB.taproot = ThresholdState(vNondetU8("taprootState"))
	vAssume(vCB.segwit <= ThresholdFailed && vCB.csv <= ThresholdFailed && vCB.taproot <= ThresholdFailed)
	vCB.scriptsRun, vCB.scriptFlags, vCB.scriptsFail = 0, 0, vNondetBool("scriptsFail")
	height := int32(148 + vNondetLen("height", 4)) // 148..152: both sides of the first halving
	parent := &blockNode{height: height - 1, timestamp: 1600000000}
	parent.hash[0] = 0x11
	bip16 := vNondetBool("afterBip16")
	nodeTime := int64(1600000000)
	if !bip16 {
		nodeTime = 1300000000 // before 1 April 2012
	}
	node := &blockNode{height: height, parent: parent, timestamp: nodeTime}
	node.hash[0] = 0x22
	view := NewUtxoViewpoint()
	view.SetBestHash(&parent.hash)
	var op wire.OutPoint
	op.Hash[0] = 0x33
	inAmt := vNondetI64("inputAmount")
	vAssume(inAmt >= 0 && inAmt <= vMaxSatoshi)
	view.entries[op] = &UtxoEntry{amount: inAmt, blockHeight: 1, pkScript: []byte{0x51}}
	cb := wire.NewMsgTx(1)
	cb.AddTxIn(&wire.TxIn{PreviousOutPoint: wire.OutPoint{Index: 0xffffffff}, SignatureScript: []byte{0x51, 0x51}, Sequence: 0xffffffff})
	cbOut := vNondetI64("coinbaseOut")
	vAssume(cbOut >= 0 && cbOut <= vMaxSatoshi)
	cb.AddTxOut(&wire.TxOut{Value: cbOut, PkScript: []byte{0x51}})
	tx := wire.NewMsgTx(1)
	tx.AddTxIn(&wire.TxIn{PreviousOutPoint: op, Sequence: 0xffffffff})
	out0, out1 := vNondetI64("out0"), vNondetI64("out1")
	vAssume(out0 >= 0 && out0 <= vMaxSatoshi && out1 >= 0 && out1 <= vMaxSatoshi && out0+out1 <= vMaxSatoshi)
	tx.AddTxOut(&wire.TxOut{Value: out0, PkScript: []byte{0x51}})
	tx.AddTxOut(&wire.TxOut{Value: out1, PkScript: []byte{0x52}})
	version := int32(vNondetU8("blockVersion"))
	msg := &wire.MsgBlock{Header: wire.BlockHeader{Version: version, PrevBlock: parent.hash}}
	msg.AddTransaction(cb)
	msg.AddTransaction(tx)
	block := btcutil.NewBlock(msg)
	// transaction ids are SHA-256 values of symbolic contents (uninterpreted in the encoding): collision freedom
	// among the three ids in play is an explicit assumption
	txid, cbid := *block.Transactions()[1].Hash(), *block.Transactions()[0].Hash()
	vAssume(txid != op.Hash && cbid != op.Hash && txid != cbid)
	var stxos []SpentTxOut
	err := b.checkConnectBlock(node, block, view, &stxos)

	// ---- reference
	subsidy := int64(50 * 100000000)
	if height >= 150 {
		subsidy = 25 * 100000000
	}
	fee := inAmt - (out0 + out1)
	re, isRule := err.(RuleError)
	switch {
	case fee < 0:
		vAssert(isRule && re.ErrorCode == ErrSpendTooHigh, "outputs exceeding inputs are refused")
		vAssert(vCB.scriptsRun == 0, "scripts are not run for a block that fails the value rules")
		vReach("overspend")
		return
	case cbOut > subsidy+fee:
		vAssert(isRule && re.ErrorCode == ErrBadCoinbaseValue, "the coinbase may pay at most subsidy(height) + fees")
		vAssert(vCB.scriptsRun == 0, "scripts are not run for a block that fails the value rules")
		vReach("badcoinbase")
		return
	}
	vAssert(vCB.scriptsRun == 1, "scripts are validated exactly once (no checkpoints configured)")
	want := txscript.ScriptFlags(0)
	if bip16 {
		want |= txscript.ScriptBip16
	}
	if version >= 3 && height >= params.BIP0066Height {
		want |= txscript.ScriptVerifyDERSignatures
	}
	if version >= 4 && height >= params.BIP0065Height {
		want |= txscript.ScriptVerifyCheckLockTimeVerify
	}
	if vCB.csv == ThresholdActive {
		want |= txscript.ScriptVerifyCheckSequenceVerify
	}
	if vCB.segwit == ThresholdActive {
		want |= txscript.ScriptVerifyWitness | txscript.ScriptStrictMultiSig
	}
	if vCB.taproot == ThresholdActive {
		want |= txscript.ScriptVerifyTaproot
	}
	vAssert(vCB.scriptFlags == want, "scripts are verified under exactly the flags active for this block")
	if vCB.scriptsFail {
		vAssert(isRule && re.ErrorCode == ErrScriptValidation, "a script failure fails the block")
		vReach("scriptfail")
		return
	}
	vAssert(err == nil, "a block satisfying every connect rule is accepted")
	vAssert(*view.BestHash() == node.hash, "the view's best hash moves to the block")
	vAssert(view.LookupEntry(op) != nil && view.LookupEntry(op).IsSpent(), "the input is spent")
	vAssert(len(stxos) == 1 && stxos[0].Amount == inAmt && stxos[0].Height == 1 && !stxos[0].IsCoinBase, "undo record describes the spent output")
	h := block.Transactions()[1].Hash()
	e0 := view.LookupEntry(wire.OutPoint{Hash: *h, Index: 0})
	e1 := view.LookupEntry(wire.OutPoint{Hash: *h, Index: 1})
	vAssert(e0 != nil && !e0.IsSpent() && e0.Amount() == out0 && e0.BlockHeight() == height && !e0.IsCoinBase(), "output 0 created")
	vAssert(e1 != nil && !e1.IsSpent() && e1.Amount() == out1, "output 1 created")
	ch := block.Transactions()[0].Hash()
	ec := view.LookupEntry(wire.OutPoint{Hash: *ch, Index: 0})
	vAssert(ec != nil && ec.IsCoinBase() && ec.Amount() == cbOut && ec.BlockHeight() == height, "coinbase output created and flagged")
	vReach("accept")
}
