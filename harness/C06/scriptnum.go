//verif:module txscript
//verif:pkg .
package txscript

// reference decoder: Bitcoin Core CScriptNum::set_vch (little-endian sign-magnitude)
func specScriptNum(b []byte) int64 {
	if len(b) == 0 {
		return 0
	}
	var r int64
	m := int64(1)
	for i := 0; i < len(b); i++ {
		v := int64(b[i])
		if i == len(b)-1 {
			v = v & 0x7f
		}
		r = r + v*m
		m = m * 256
	}
	if b[len(b)-1]&0x80 != 0 {
		return -r
	}
	return r
}

// Core: IsMinimallyEncoded
func specMinimal(b []byte) bool {
	if len(b) == 0 {
		return true
	}
	if b[len(b)-1]&0x7f == 0 {
		if len(b) <= 1 || b[len(b)-2]&0x80 == 0 {
			return false
		}
	}
	return true
}

// C06(1): MakeScriptNum == CScriptNum for every byte string of length 0..6, maxLen 4 and 5, both minimal flags
//verif:opts reach=ok,toobig,notminimal
func VH_make_scriptnum() {
	n := vNondetLen("len", 6)
	b := vNondetBytes("b", n)
	minimal := vNondetBool("minimal")
	maxLen := 4 + vNondetLen("cltv", 1)
	v, err := MakeScriptNum(b, minimal, maxLen)
	if n > maxLen {
		vAssert(err != nil && IsErrorCode(err, ErrNumberTooBig), "longer than maxLen is ErrNumberTooBig")
		vReach("toobig")
		return
	}
	if minimal && !specMinimal(b) {
		vAssert(err != nil && IsErrorCode(err, ErrMinimalData), "non-minimal encoding rejected when required")
		vReach("notminimal")
		return
	}
	vAssert(err == nil, "accepted otherwise")
	vAssert(int64(v) == specScriptNum(b), "MakeScriptNum == CScriptNum decode")
	vObserve("v", uint64(v))
	vReach("ok")
}

// C06(1): scriptNum.Bytes is the minimal encoding and the right inverse of MakeScriptNum on [-2^39, 2^39];
// Int32 saturates.
//verif:opts reach=end
func VH_scriptnum_bytes() {
	x := vNondetI64("x")
	vAssume(x >= -(1<<39) && x <= 1<<39)
	b := scriptNum(x).Bytes()
	vAssert(len(b) <= 6, "at most 6 bytes in this range")
	vAssert(specMinimal(b), "Bytes() is minimally encoded")
	vAssert(specScriptNum(b) == x, "decode(Bytes(x)) == x")
	back, err := MakeScriptNum(b, true, 6)
	vAssert(err == nil && int64(back) == x, "MakeScriptNum(Bytes(x)) == x")
	i32 := scriptNum(x).Int32()
	switch {
	case x > 2147483647:
		vAssert(i32 == 2147483647, "Int32 saturates high")
	case x < -2147483648:
		vAssert(i32 == -2147483648, "Int32 saturates low")
	default:
		vAssert(int64(i32) == x, "Int32 is the identity in range")
	}
	vObserve("n", uint64(len(b)))
	vReach("end")
}

// C06(1): asBool: false exactly for all-zero and negative-zero encodings
//verif:opts reach=end
func VH_as_bool() {
	n := vNondetLen("len", 5)
	b := vNondetBytes("b", n)
	want := false
	for i := 0; i < n; i++ {
		if b[i] != 0 {
			if i == n-1 && b[i] == 0x80 {
				continue
			}
			want = true
		}
	}
	vAssert(asBool(b) == want, "asBool == Core CastToBool")
	vReach("end")
}

// C06(5): tokenizer on every script of up to N bytes: no panic, offset strictly increases and stays within
// the script, pushed data lies inside the script, error exactly when a push runs past the end.
//verif:opts reach=end
func VH_tokenizer() {
	max := 5
	if vTier() == 1 {
		max = 8
	}
	n := vNondetLen("len", max)
	s := vNondetBytes("script", n)
	t := MakeScriptTokenizer(0, s)
	last := int32(0)
	// reference parse
	pos := 0
	bad := false
	for t.Next() {
		vAssert(t.ByteIndex() > last, "offset strictly increases")
		vAssert(int(t.ByteIndex()) <= n, "offset stays within the script")
		// spec: length of this instruction
		op := s[pos]
		dl, hdr := 0, 1
		switch {
		case op >= 1 && op <= 75:
			dl = int(op)
		case op == 76:
			hdr, dl = 2, int(s[pos+1])
		case op == 77:
			hdr, dl = 3, int(s[pos+1])|int(s[pos+2])<<8
		case op == 78:
			hdr = 5
			dl = int(uint32(s[pos+1]) | uint32(s[pos+2])<<8 | uint32(s[pos+3])<<16 | uint32(s[pos+4])<<24)
		}
		vAssert(t.Opcode() == op, "opcode is the byte at the instruction start")
		vAssert(len(t.Data()) == dl, "data length == pushed length")
		for i := 0; i < dl; i++ {
			vAssert(t.Data()[i] == s[pos+hdr+i], "data bytes are the script bytes after the header")
		}
		pos += hdr + dl
		vAssert(int(t.ByteIndex()) == pos, "offset == start + header + data")
		last = t.ByteIndex()
	}
	if t.Err() != nil {
		vAssert(IsErrorCode(t.Err(), ErrMalformedPush), "only malformed pushes are errors")
		bad = true
	} else {
		vAssert(pos == n, "a script without error is consumed entirely")
	}
	vAssert((checkScriptParses(0, s) != nil) == bad, "checkScriptParses agrees with the tokenizer")
	vReach("end")
}

// C06(1): scriptNum.Bytes never panics and is minimal for every int64 (ScriptBuilder.AddInt64 takes any int64)
//verif:opts reach=end
func VH_scriptnum_bytes_total() {
	x := vNondetI64("x")
	b := scriptNum(x).Bytes()
	vAssert(len(b) <= 9, "at most 9 bytes")
	vAssert(specMinimal(b), "minimal encoding")
	if x != -1<<63 {
		vAssert(specScriptNum(b) == x, "decode(Bytes(x)) == x")
	} else {
		vAssert(len(b) == 9 && b[7] == 0x80 && b[8] == 0x80, "-2^63 encodes as magnitude 2^63 plus a sign byte")
	}
	vReach("end")
}
