//verif:module txscript
//verif:pkg .
package txscript

// One VM step from an arbitrary state: the Engine is built directly by the harness (arbitrary data stack
// of bounded depth / item length, arbitrary minimal-data flag), the real executeOpcode is run for one
// opcode, and the resulting stack / error class is compared with reference semantics transcribed from
// Bitcoin Core's interpreter.cpp (EvalScript).

func vMkStackItems(tag string, depth, maxItem int) [][]byte {
	items := make([][]byte, 0, depth)
	for i := 0; i < depth; i++ {
		items = append(items, vNondetBytes(tag, vNondetLen(tag+".len", maxItem)))
	}
	return items
}

func vMkEngine(items [][]byte) *Engine {
	vm := &Engine{}
	for _, it := range items {
		vm.dstack.PushByteArray(it)
	}
	vm.dstack.verifyMinimalData = vNondetBool("minimaldata")
	vm.astack.verifyMinimalData = vm.dstack.verifyMinimalData
	return vm
}

func vSameItem(a, b []byte) bool {
	if len(a) != len(b) {
		return false
	}
	for i := range a {
		if a[i] != b[i] {
			return false
		}
	}
	return true
}

func vStackIs(vm *Engine, want [][]byte) bool {
	if int(vm.dstack.Depth()) != len(want) {
		return false
	}
	for i := range want {
		got, err := vm.dstack.PeekByteArray(int32(len(want) - 1 - i))
		if err != nil || !vSameItem(got, want[i]) {
			return false
		}
	}
	return true
}

// operand decoding rule of every numeric opcode: <= 4 bytes, minimal when the flag is set
func specNumOperand(b []byte, minimal bool) (v int64, code ErrorCode, ok bool) {
	if len(b) > 4 {
		return 0, ErrNumberTooBig, false
	}
	if minimal && !specMinimal(b) {
		return 0, ErrMinimalData, false
	}
	return specScriptNum(b), 0, true
}

func specBool(b bool) int64 {
	if b {
		return 1
	}
	return 0
}

// Core: binary numeric opcodes (bn1 = second from top, bn2 = top)
func specBinary(op byte, a, b int64) int64 {
	switch op {
	case OP_ADD:
		return a + b
	case OP_SUB:
		return a - b
	case OP_BOOLAND:
		return specBool(a != 0 && b != 0)
	case OP_BOOLOR:
		return specBool(a != 0 || b != 0)
	case OP_NUMEQUAL, OP_NUMEQUALVERIFY:
		return specBool(a == b)
	case OP_NUMNOTEQUAL:
		return specBool(a != b)
	case OP_LESSTHAN:
		return specBool(a < b)
	case OP_GREATERTHAN:
		return specBool(a > b)
	case OP_LESSTHANOREQUAL:
		return specBool(a <= b)
	case OP_GREATERTHANOREQUAL:
		return specBool(a >= b)
	case OP_MIN:
		if a < b {
			return a
		}
		return b
	case OP_MAX:
		if a > b {
			return a
		}
		return b
	}
	return 0
}

var vBinaryOps = []byte{OP_ADD, OP_SUB, OP_BOOLAND, OP_BOOLOR, OP_NUMEQUAL, OP_NUMNOTEQUAL, OP_LESSTHAN,
	OP_GREATERTHAN, OP_LESSTHANOREQUAL, OP_GREATERTHANOREQUAL, OP_MIN, OP_MAX}

// C06(3): binary arithmetic / comparison opcodes, operands of 0..5 bytes
//verif:opts reach=ok,operr,underflow
func VH_op_binary_numeric() {
	op := vBinaryOps[vNondetLen("op", len(vBinaryOps)-1)]
	depth := vNondetLen("depth", 3)
	var items [][]byte
	if depth == 3 {
		items = append(items, vNondetBytes("below", 1))
	}
	if vTier() == 1 {
		items = append(items, vMkStackItems("item", depth-len(items), 5)...)
	} else {
		// quick tier: representative operand length pairs (all 36 pairs in the thorough tier)
		pairs := [][2]int{{0, 0}, {1, 1}, {1, 4}, {4, 1}, {4, 4}, {2, 3}, {5, 1}, {1, 5}, {0, 4}}
		p := pairs[vNondetLen("lens", len(pairs)-1)]
		k := depth - len(items)
		for i := 0; i < k; i++ {
			items = append(items, vNondetBytes("item", p[i]))
		}
	}
	vm := vMkEngine(items)
	minimal := vm.dstack.verifyMinimalData
	err := vm.executeOpcode(&opcodeArray[op], nil)
	if depth < 2 {
		// (the error class may be a data-encoding error of the only operand: the script fails either way)
		vAssert(err != nil, "fewer than two operands fails the script")
		vReach("underflow")
		return
	}
	b, cb, okb := specNumOperand(items[depth-1], minimal)
	a, ca, oka := specNumOperand(items[depth-2], minimal)
	if !okb || !oka {
		vAssert(err != nil, "a malformed operand fails the script")
		if okb != oka {
			want := cb
			if okb {
				want = ca
			}
			vAssert(IsErrorCode(err, want), "error class of the single malformed operand")
		}
		vReach("operr")
		return
	}
	vAssert(err == nil, "well-formed operands never fail")
	vAssert(int(vm.dstack.Depth()) == depth-1, "two operands replaced by one result")
	top, _ := vm.dstack.PeekByteArray(0)
	vAssert(specMinimal(top), "result is minimally encoded")
	vAssert(specScriptNum(top) == specBinary(op, a, b), "result value == reference semantics")
	if depth == 3 {
		rest, _ := vm.dstack.PeekByteArray(1)
		vAssert(vSameItem(rest, items[0]), "items below the operands are untouched")
	}
	vReach("ok")
}

func specUnary(op byte, a int64) int64 {
	switch op {
	case OP_1ADD:
		return a + 1
	case OP_1SUB:
		return a - 1
	case OP_NEGATE:
		return -a
	case OP_ABS:
		if a < 0 {
			return -a
		}
		return a
	case OP_NOT:
		return specBool(a == 0)
	case OP_0NOTEQUAL:
		return specBool(a != 0)
	}
	return 0
}

var vUnaryOps = []byte{OP_1ADD, OP_1SUB, OP_NEGATE, OP_ABS, OP_NOT, OP_0NOTEQUAL}

// C06(3): unary numeric opcodes
//verif:opts reach=ok,operr,underflow
func VH_op_unary_numeric() {
	op := vUnaryOps[vNondetLen("op", len(vUnaryOps)-1)]
	depth := vNondetLen("depth", 2)
	items := vMkStackItems("item", depth, 5)
	vm := vMkEngine(items)
	err := vm.executeOpcode(&opcodeArray[op], nil)
	if depth < 1 {
		vAssert(err != nil && IsErrorCode(err, ErrInvalidStackOperation), "empty stack is a stack error")
		vReach("underflow")
		return
	}
	a, ca, oka := specNumOperand(items[depth-1], vm.dstack.verifyMinimalData)
	if !oka {
		vAssert(err != nil && IsErrorCode(err, ca), "bad operand: error class")
		vReach("operr")
		return
	}
	vAssert(err == nil, "well-formed operand never fails")
	vAssert(int(vm.dstack.Depth()) == depth, "depth unchanged")
	top, _ := vm.dstack.PeekByteArray(0)
	vAssert(specMinimal(top) && specScriptNum(top) == specUnary(op, a), "result == reference semantics")
	vReach("ok")
}

// C06(3): OP_WITHIN (x min max -> min <= x < max) and OP_NUMEQUALVERIFY
//verif:opts reach=ok,fail
func VH_op_within_numequalverify() {
	which := vNondetBool("within")
	n := 2
	op := byte(OP_NUMEQUALVERIFY)
	if which {
		n, op = 3, OP_WITHIN
	}
	items := vMkStackItems("item", n, 4)
	vm := vMkEngine(items)
	vm.dstack.verifyMinimalData = false
	err := vm.executeOpcode(&opcodeArray[op], nil)
	if which {
		x, mn, mx := specScriptNum(items[0]), specScriptNum(items[1]), specScriptNum(items[2])
		vAssert(err == nil && vm.dstack.Depth() == 1, "three operands replaced by one result")
		top, _ := vm.dstack.PeekByteArray(0)
		vAssert(specScriptNum(top) == specBool(mn <= x && x < mx), "WITHIN == (min <= x < max)")
		vReach("ok")
		return
	}
	eq := specScriptNum(items[0]) == specScriptNum(items[1])
	if eq {
		vAssert(err == nil && vm.dstack.Depth() == 0, "equal numbers: verify passes and consumes the result")
		vReach("ok")
	} else {
		vAssert(err != nil && IsErrorCode(err, ErrNumEqualVerify), "unequal numbers: NUMEQUALVERIFY fails")
		vReach("fail")
	}
}

// ---- stack manipulation opcodes against a list model
func specStackOp(op byte, s [][]byte) ([][]byte, bool) {
	n := len(s)
	need := map[byte]int{OP_DUP: 1, OP_DROP: 1, OP_SWAP: 2, OP_OVER: 2, OP_ROT: 3, OP_NIP: 2, OP_TUCK: 2, OP_2DUP: 2,
		OP_3DUP: 3, OP_2DROP: 2, OP_2OVER: 4, OP_2ROT: 6, OP_2SWAP: 4, OP_IFDUP: 1, OP_DEPTH: 0, OP_SIZE: 1}[op]
	if n < need {
		return nil, false
	}
	out := append([][]byte{}, s...)
	switch op {
	case OP_DUP:
		out = append(out, s[n-1])
	case OP_DROP:
		out = out[:n-1]
	case OP_SWAP:
		out[n-1], out[n-2] = s[n-2], s[n-1]
	case OP_OVER:
		out = append(out, s[n-2])
	case OP_ROT:
		out[n-3], out[n-2], out[n-1] = s[n-2], s[n-1], s[n-3]
	case OP_NIP:
		out = append(out[:n-2], s[n-1])
	case OP_TUCK:
		out = append(out[:n-2], s[n-1], s[n-2], s[n-1])
	case OP_2DUP:
		out = append(out, s[n-2], s[n-1])
	case OP_3DUP:
		out = append(out, s[n-3], s[n-2], s[n-1])
	case OP_2DROP:
		out = out[:n-2]
	case OP_2OVER:
		out = append(out, s[n-4], s[n-3])
	case OP_2ROT:
		out = append(out[:n-6], s[n-4], s[n-3], s[n-2], s[n-1], s[n-6], s[n-5])
	case OP_2SWAP:
		out = append(out[:n-4], s[n-2], s[n-1], s[n-4], s[n-3])
	case OP_IFDUP:
		if asBool(s[n-1]) {
			out = append(out, s[n-1])
		}
	case OP_DEPTH:
		out = append(out, scriptNum(n).Bytes())
	case OP_SIZE:
		out = append(out, scriptNum(len(s[n-1])).Bytes())
	}
	return out, true
}

var vStackOps = []byte{OP_DUP, OP_DROP, OP_SWAP, OP_OVER, OP_ROT, OP_NIP, OP_TUCK, OP_2DUP, OP_3DUP, OP_2DROP,
	OP_2OVER, OP_2ROT, OP_2SWAP, OP_IFDUP, OP_DEPTH, OP_SIZE}

// C06(2,3): stack opcodes, depth 0..6, one-byte symbolic items (two bytes for the top item)
//verif:opts reach=ok,underflow
func VH_op_stack() {
	op := vStackOps[vNondetLen("op", len(vStackOps)-1)]
	depth := vNondetLen("depth", 6)
	items := make([][]byte, 0, depth)
	for i := 0; i < depth; i++ {
		l := 1
		if i == depth-1 {
			l = vNondetLen("toplen", 2)
		}
		items = append(items, vNondetBytes("item", l))
	}
	vm := vMkEngine(items)
	err := vm.executeOpcode(&opcodeArray[op], nil)
	want, ok := specStackOp(op, items)
	if !ok {
		vAssert(err != nil && IsErrorCode(err, ErrInvalidStackOperation), "too few items is a stack error")
		vReach("underflow")
		return
	}
	vAssert(err == nil, "enough items never fails")
	vAssert(vStackIs(vm, want), "resulting stack == list model")
	vReach("ok")
}

// C06(2,3): OP_PICK / OP_ROLL with a symbolic index taken from the stack
//verif:opts reach=ok,range
func VH_op_pick_roll() {
	roll := vNondetBool("roll")
	depth := 1 + vNondetLen("depth", 4)
	items := make([][]byte, 0, depth+1)
	for i := 0; i < depth; i++ {
		items = append(items, vNondetBytes("item", 1))
	}
	idx := vNondetBytes("idx", vNondetLen("idxlen", 2))
	items = append(items, idx)
	vm := vMkEngine(items)
	vm.dstack.verifyMinimalData = false
	op := byte(OP_PICK)
	if roll {
		op = OP_ROLL
	}
	err := vm.executeOpcode(&opcodeArray[op], nil)
	n := specScriptNum(idx)
	if n < 0 || n >= int64(depth) {
		vAssert(err != nil && IsErrorCode(err, ErrInvalidStackOperation), "index out of range is a stack error")
		vReach("range")
		return
	}
	vAssert(err == nil, "in-range index never fails")
	want := append([][]byte{}, items[:depth]...)
	pos := depth - 1 - int(n)
	if roll {
		want = append(want[:pos], want[pos+1:]...)
	}
	want = append(want, items[pos])
	vAssert(vStackIs(vm, want), "PICK copies / ROLL moves the n-th item to the top")
	vReach("ok")
}

// C06(3): alt stack, EQUAL, EQUALVERIFY, VERIFY
//verif:opts reach=end
func VH_op_misc() {
	a := vNondetBytes("a", vNondetLen("alen", 2))
	b := vNondetBytes("b", vNondetLen("blen", 2))
	// TOALTSTACK / FROMALTSTACK
	vm := vMkEngine([][]byte{a, b})
	vAssert(vm.executeOpcode(&opcodeArray[OP_TOALTSTACK], nil) == nil, "TOALTSTACK ok")
	vAssert(vm.dstack.Depth() == 1 && vm.astack.Depth() == 1, "one item moved to the alt stack")
	vAssert(vm.executeOpcode(&opcodeArray[OP_FROMALTSTACK], nil) == nil, "FROMALTSTACK ok")
	vAssert(vStackIs(vm, [][]byte{a, b}) && vm.astack.Depth() == 0, "round trip through the alt stack")
	e := vm.executeOpcode(&opcodeArray[OP_FROMALTSTACK], nil)
	vAssert(e != nil && IsErrorCode(e, ErrInvalidStackOperation), "FROMALTSTACK on an empty alt stack fails")
	// EQUAL
	vm2 := vMkEngine([][]byte{a, b})
	vAssert(vm2.executeOpcode(&opcodeArray[OP_EQUAL], nil) == nil && vm2.dstack.Depth() == 1, "EQUAL ok")
	top, _ := vm2.dstack.PeekByteArray(0)
	vAssert(asBool(top) == vSameItem(a, b), "EQUAL compares bytes")
	// EQUALVERIFY
	vm3 := vMkEngine([][]byte{a, b})
	e3 := vm3.executeOpcode(&opcodeArray[OP_EQUALVERIFY], nil)
	if vSameItem(a, b) {
		vAssert(e3 == nil && vm3.dstack.Depth() == 0, "EQUALVERIFY passes on equal items")
	} else {
		vAssert(e3 != nil && IsErrorCode(e3, ErrEqualVerify), "EQUALVERIFY fails on different items")
	}
	// VERIFY
	vm4 := vMkEngine([][]byte{a})
	e4 := vm4.executeOpcode(&opcodeArray[OP_VERIFY], nil)
	if asBool(a) {
		vAssert(e4 == nil && vm4.dstack.Depth() == 0, "VERIFY pops a true value")
	} else {
		vAssert(e4 != nil && IsErrorCode(e4, ErrVerify), "VERIFY fails on a false value")
	}
	vReach("end")
}

// C06(3): conditionals IF / NOTIF / ELSE / ENDIF as one step on an arbitrary condition stack
//verif:opts reach=end
func VH_op_conditionals() {
	nc := vNondetLen("ncond", 2)
	conds := make([]int, 0, nc)
	for i := 0; i < nc; i++ {
		conds = append(conds, []int{OpCondFalse, OpCondTrue, OpCondSkip}[vNondetLen("cond", 2)])
	}
	executing := nc == 0 || conds[nc-1] == OpCondTrue
	item := vNondetBytes("item", vNondetLen("ilen", 2))
	op := []byte{OP_IF, OP_NOTIF, OP_ELSE, OP_ENDIF}[vNondetLen("op", 3)]
	vm := vMkEngine([][]byte{item})
	vm.condStack = append([]int{}, conds...)
	err := vm.executeOpcode(&opcodeArray[op], nil)
	switch op {
	case OP_IF, OP_NOTIF:
		vAssert(err == nil, "IF/NOTIF with an item available never fails (no MINIMALIF)")
		vAssert(len(vm.condStack) == nc+1, "IF/NOTIF pushes one condition")
		if executing {
			want := OpCondFalse
			if asBool(item) == (op == OP_IF) {
				want = OpCondTrue
			}
			vAssert(vm.condStack[nc] == want && vm.dstack.Depth() == 0, "executing IF pops the item and records its truth")
		} else {
			vAssert(vm.condStack[nc] == OpCondSkip && vm.dstack.Depth() == 1, "non-executing IF records skip and leaves the stack")
		}
	case OP_ELSE:
		if nc == 0 {
			vAssert(err != nil && IsErrorCode(err, ErrUnbalancedConditional), "ELSE without IF")
		} else {
			want := conds[nc-1]
			if want == OpCondTrue {
				want = OpCondFalse
			} else if want == OpCondFalse {
				want = OpCondTrue
			}
			vAssert(err == nil && len(vm.condStack) == nc && vm.condStack[nc-1] == want, "ELSE flips true/false and keeps skip")
		}
	case OP_ENDIF:
		if nc == 0 {
			vAssert(err != nil && IsErrorCode(err, ErrUnbalancedConditional), "ENDIF without IF")
		} else {
			vAssert(err == nil && len(vm.condStack) == nc-1, "ENDIF pops one condition")
		}
	}
	vReach("end")
}

// C06(4): dispatch gate of executeOpcode for every opcode byte: disabled and always-illegal opcodes fail even
// in a non-executing branch; non-conditional opcodes are skipped (no effect) when not executing; the op
// counter counts exactly opcodes above OP_16 and fails beyond 201.
//verif:opts reach=end
func VH_dispatch_gate() {
	opb := vSplitU8(vNondetU8("opcode"), 256)
	vm := vMkEngine([][]byte{{1}})
	vm.condStack = []int{OpCondFalse}
	vm.numOps = vNondetLen("numOps", 1) * 201
	before := vm.numOps
	err := vm.executeOpcode(&opcodeArray[opb], nil)
	disabled := map[byte]bool{OP_CAT: true, OP_SUBSTR: true, OP_LEFT: true, OP_RIGHT: true, OP_INVERT: true, OP_AND: true,
		OP_OR: true, OP_XOR: true, OP_2MUL: true, OP_2DIV: true, OP_MUL: true, OP_DIV: true, OP_MOD: true,
		OP_LSHIFT: true, OP_RSHIFT: true}[opb]
	switch {
	case disabled:
		vAssert(err != nil && IsErrorCode(err, ErrDisabledOpcode), "disabled opcodes fail even when not executed")
	case opb == OP_VERIF || opb == OP_VERNOTIF:
		vAssert(err != nil && IsErrorCode(err, ErrReservedOpcode), "VERIF/VERNOTIF fail even when not executed")
	case opb > OP_16 && before == 201:
		vAssert(err != nil && IsErrorCode(err, ErrTooManyOperations), "202nd counted opcode fails")
	case opb == OP_IF || opb == OP_NOTIF:
		vAssert(err == nil && len(vm.condStack) == 2 && vm.condStack[1] == OpCondSkip, "nested IF in a skipped branch records skip")
	case opb == OP_ELSE:
		vAssert(err == nil && vm.condStack[0] == OpCondTrue, "ELSE flips the branch")
	case opb == OP_ENDIF:
		vAssert(err == nil && len(vm.condStack) == 0, "ENDIF closes the branch")
	default:
		vAssert(err == nil, "other opcodes are skipped in a non-executing branch")
		vAssert(vm.dstack.Depth() == 1 && len(vm.condStack) == 1, "skipped opcode has no effect")
	}
	if err == nil || !(opb > OP_16 && before == 201) {
		if opb > OP_16 && !disabled && opb != OP_VERIF && opb != OP_VERNOTIF {
			vAssert(vm.numOps == before+1, "opcodes above OP_16 are counted")
		}
		if opb <= OP_16 {
			vAssert(vm.numOps == before, "push opcodes are not counted")
		}
	}
	vReach("end")
}
