//verif:module txscript
//verif:pkg .
package txscript

// half of the group order, big endian (BIP62 low-S bound: s <= n/2)
var vHalfOrder = []byte{0x7F, 0xFF, 0xFF, 0xFF, 0xFF, 0xFF, 0xFF, 0xFF, 0xFF, 0xFF, 0xFF, 0xFF, 0xFF, 0xFF, 0xFF, 0xFF,
	0x5D, 0x57, 0x6E, 0x73, 0x57, 0xA4, 0x50, 0x1D, 0xDF, 0xE9, 0x2F, 0x46, 0x68, 0x1B, 0x20, 0xA0}

// BIP66 IsValidSignatureEncoding without the hash-type byte
func specBIP66(sig []byte) bool {
	if len(sig) < 8 || len(sig) > 72 {
		return false
	}
	if sig[0] != 0x30 || int(sig[1]) != len(sig)-2 {
		return false
	}
	lenR := int(sig[3])
	if 5+lenR >= len(sig) {
		return false
	}
	lenS := int(sig[5+lenR])
	if lenR+lenS+6 != len(sig) {
		return false
	}
	if sig[2] != 0x02 || lenR == 0 || sig[4]&0x80 != 0 {
		return false
	}
	if lenR > 1 && sig[4] == 0 && sig[5]&0x80 == 0 {
		return false
	}
	if sig[lenR+4] != 0x02 || lenS == 0 || sig[lenR+6]&0x80 != 0 {
		return false
	}
	if lenS > 1 && sig[lenR+6] == 0 && sig[lenR+7]&0x80 == 0 {
		return false
	}
	return true
}

// s <= n/2 for a canonical (BIP66) positive big-endian integer of at most 33 bytes, flags only (no early exit)
func specLowS(s []byte) bool {
	if len(s) > 33 {
		return false
	}
	var v [33]byte
	copy(v[33-len(s):], s)
	gt, eq := false, true
	for i := 0; i < 33; i++ {
		var h byte
		if i > 0 {
			h = vHalfOrder[i-1]
		}
		gt = gt || (eq && v[i] > h)
		eq = eq && v[i] == h
	}
	return !gt
}

// C06(6): checkSignatureEncoding == BIP66 strict DER (and s <= n/2 under LOW_S) for every input of the listed
// lengths and every combination of the DERSIG / LOW_S / STRICTENC flags; never panics.
//verif:opts reach=accept,reject bigw=640
func VH_check_signature_encoding() {
	lens := []int{0, 7, 8, 9, 10, 70}
	if vTier() == 1 {
		lens = []int{0, 1, 7, 8, 9, 10, 11, 12, 40, 69, 70, 71, 72, 73}
	}
	n := lens[vNondetLen("leni", len(lens)-1)]
	sig := vNondetBytes("sig", n)
	if n >= 40 {
		vAssume(int(sig[1]) == n-2)
		if vTier() == 0 {
			vAssume(sig[3] == 32 || sig[3] == 33 || sig[3] == 1)
		}
	}
	vm := &Engine{}
	der, lowS, strict := vNondetBool("dersig"), vNondetBool("lows"), vNondetBool("strictenc")
	if der {
		vm.flags |= ScriptVerifyDERSignatures
	}
	if lowS {
		vm.flags |= ScriptVerifyLowS
	}
	if strict {
		vm.flags |= ScriptVerifyStrictEncoding
	}
	err := vm.checkSignatureEncoding(sig)
	want := true
	if der || lowS || strict {
		want = specBIP66(sig)
		if want && lowS {
			lenR := int(sig[3])
			lenS := int(sig[5+lenR])
			want = specLowS(sig[6+lenR : 6+lenR+lenS])
		}
	}
	vAssert((err == nil) == want, "accepted iff strictly DER encoded (and s <= n/2 when LOW_S is set), or no flag is set")
	if err == nil {
		vReach("accept")
	} else {
		vReach("reject")
	}
}

// C06(6): public key and hash type encoding rules
//verif:opts reach=end
func VH_pubkey_and_hashtype_encoding() {
	n := []int{0, 1, 32, 33, 34, 64, 65, 66}[vNondetLen("leni", 7)]
	pk := make([]byte, n)
	if n > 0 {
		pk[0] = vNondetU8("first")
	}
	vm := &Engine{}
	strict := vNondetBool("strictenc")
	if strict {
		vm.flags |= ScriptVerifyStrictEncoding
	}
	err := vm.checkPubKeyEncoding(pk)
	ok := (n == 33 && (pk[0] == 2 || pk[0] == 3)) || (n == 65 && pk[0] == 4)
	vAssert((err == nil) == (!strict || ok), "STRICTENC accepts only 02/03 (33 bytes) and 04 (65 bytes) keys")
	vAssert(isStrictPubKeyEncoding(pk) == ((n == 33 && (pk[0] == 2 || pk[0] == 3)) || (n == 65 && (pk[0] == 4 || pk[0] == 6 || pk[0] == 7))), "isStrictPubKeyEncoding includes hybrid keys")
	ht := SigHashType(vNondetU32("hashType"))
	e2 := vm.checkHashTypeEncoding(ht)
	base := ht &^ 0x80
	vAssert((e2 == nil) == (!strict || (base >= 1 && base <= 3)), "STRICTENC accepts only ALL/NONE/SINGLE with optional ANYONECANPAY")
	vReach("end")
}

// C06(7): witness program recognition == BIP141: a version opcode (OP_0, OP_1..OP_16) followed by exactly one
// canonical direct push of 2..40 bytes, nothing else; script length 4..42.
//verif:opts reach=yes,no
func VH_witness_program_shape() {
	lens := []int{3, 4, 22, 34, 42, 43}
	if vTier() == 1 {
		lens = []int{3, 4, 5, 6, 22, 23, 34, 41, 42, 43, 44}
	}
	n := lens[vNondetLen("leni", len(lens)-1)]
	s := make([]byte, n)
	s[0] = vNondetU8("version")
	s[1] = vNondetU8("push")
	if n > 2 {
		s[2] = vNondetU8("d0")
	}
	ver, prog, ok := extractWitnessProgramInfo(s)
	isVer := s[0] == 0 || (s[0] >= 0x51 && s[0] <= 0x60)
	want := n >= 4 && n <= 42 && isVer && int(s[1]) == n-2 && s[1] >= 2 && s[1] <= 40
	vAssert(ok == want, "witness program iff version opcode + one direct push of 2..40 bytes filling the script")
	vAssert(isWitnessProgramScript(s) == want, "isWitnessProgramScript agrees")
	if ok {
		wantVer := 0
		if s[0] != 0 {
			wantVer = int(s[0]) - 0x50
		}
		vAssert(ver == wantVer && len(prog) == n-2, "version and program extracted")
		vReach("yes")
	} else {
		vReach("no")
	}
}
