//verif:module txscript
//verif:pkg .
package txscript

// C06(8): OP_CHECKMULTISIG, transcribed from Bitcoin Core's EvalScript: for every m-of-n shape up to 2 (thorough: 3) keys, every
// assignment of {empty, signature by key k} to the signature slots and of the three keys to the key slots
// (duplicates allowed), every dummy element and the NULLDUMMY / NULLFAIL flags, the real opcode pushes exactly the
// result of the in-order matching algorithm; when the operation fails under NULLFAIL *every* signature argument
// must be empty (including those that verified), and a non-empty dummy is refused under NULLDUMMY.
// Signature verification is exact here (concrete signatures over a fixed transaction).
//verif:opts reach=true,false,nullfail,nulldummy
func VH_checkmultisig() {
	K := 2 + vTier() // 2 keys in the quick tier, 3 in the thorough tier
	nKeys := 1 + vNondetLen("nKeys", K-1)
	nSigs := vNondetLen("nSigs", K)
	vAssume(nSigs <= nKeys)
	keyChoice := make([]int, nKeys) // in evaluation order (top of stack first)
	sigChoice := make([]int, nSigs) // 0 = empty, k = signature made with key k
	for i := range keyChoice {
		keyChoice[i] = vNondetLen("key", K-1)
	}
	for i := range sigChoice {
		sigChoice[i] = vNondetLen("sig", K)
	}
	dummy := vNondetBytes("dummy", vNondetLen("dummyLen", 1))
	nullFail, nullDummy := vNondetBool("NULLFAIL"), vNondetBool("NULLDUMMY")

	vm := &Engine{tx: *vMsTx(), scripts: [][]byte{{OP_CHECKMULTISIG}}}
	if nullFail {
		vm.flags |= ScriptVerifyNullFail
	}
	if nullDummy {
		vm.flags |= ScriptStrictMultiSig
	}
	vm.dstack.PushByteArray(dummy)
	for i := nSigs - 1; i >= 0; i-- {
		if sigChoice[i] == 0 {
			vm.dstack.PushByteArray(nil)
		} else {
			vm.dstack.PushByteArray(vMsSigs[sigChoice[i]-1])
		}
	}
	vm.dstack.PushInt(scriptNum(nSigs))
	for i := nKeys - 1; i >= 0; i-- {
		vm.dstack.PushByteArray(vMsKeys[keyChoice[i]])
	}
	vm.dstack.PushInt(scriptNum(nKeys))
	err := opcodeCheckMultiSig(&opcodeArray[OP_CHECKMULTISIG], nil, vm)

	// reference: interpreter.cpp OP_CHECKMULTISIG
	success := true
	isig, ikey, nS, nK := 0, 0, nSigs, nKeys
	for success && nS > 0 {
		if sigChoice[isig] != 0 && sigChoice[isig]-1 == keyChoice[ikey] {
			isig++
			nS--
		}
		ikey++
		nK--
		if nS > nK {
			success = false
		}
	}
	anySig := false
	for _, c := range sigChoice {
		anySig = anySig || c != 0
	}
	mustNullFail := !success && nullFail && anySig
	mustNullDummy := nullDummy && len(dummy) != 0
	switch {
	case mustNullFail && mustNullDummy:
		vAssert(err != nil, "fails (NULLFAIL and NULLDUMMY both apply)")
	case mustNullFail:
		vAssert(err != nil && IsErrorCode(err, ErrNullFail), "failed CHECKMULTISIG with any non-empty signature is a NULLFAIL error")
		vReach("nullfail")
	case mustNullDummy:
		vAssert(err != nil && IsErrorCode(err, ErrSigNullDummy), "non-empty dummy is refused under NULLDUMMY")
		vReach("nulldummy")
	default:
		vAssert(err == nil, "the opcode itself does not fail")
		vAssert(vm.dstack.Depth() == 1, "all arguments are consumed and one result is pushed")
		got, perr := vm.dstack.PopBool()
		vAssert(perr == nil && got == success, "result is the in-order matching of signatures to keys")
		if success {
			vReach("true")
		} else {
			vReach("false")
		}
	}
}
