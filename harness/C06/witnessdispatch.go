//verif:module txscript
//verif:pkg .
package txscript

// C06(7): which witness rules apply: verifyWitnessProgram on an EMPTY witness, for every witness version 0..16,
// program length (2, 20, 32, 33), P2SH-nesting flag and the taproot / discourage-upgradeable flags: version 0
// demands its two program lengths; taproot rules apply only to a NATIVE (not P2SH-nested) version-1 program of
// 32 bytes and only when the taproot flag is set; every other program is an upgradeable one: accepted, unless
// the discourage flag is set.
//verif:opts reach=end
func VH_witness_program_dispatch() {
	ver := vNondetLen("version", 16)
	L := []int{2, 20, 32, 33}[vNondetLen("plen", 3)]
	prog := vNondetBytes("prog", L)
	vm := &Engine{witnessVersion: ver, witnessProgram: prog, bip16: vNondetBool("nestedInP2SH")}
	// state after the script that pushed the program: version number and program are on the data stack
	vm.dstack.PushByteArray([]byte{byte(ver)})
	vm.dstack.PushByteArray(prog)
	taproot, discourage := vNondetBool("taprootFlag"), vNondetBool("discourageFlag")
	if taproot {
		vm.flags |= ScriptVerifyTaproot
	}
	if discourage {
		vm.flags |= ScriptVerifyDiscourageUpgradeableWitnessProgram
	}
	err := vm.verifyWitnessProgram(nil)
	anchor := ver == 1 && L == 2 && prog[0] == 0x4e && prog[1] == 0x73
	switch {
	case ver == 0 && L == 20:
		vAssert(err != nil && IsErrorCode(err, ErrWitnessProgramMismatch), "P2WPKH needs exactly two witness items")
	case ver == 0 && L == 32:
		vAssert(err != nil && IsErrorCode(err, ErrWitnessProgramEmpty), "P2WSH needs a witness script")
	case ver == 0:
		vAssert(err != nil && IsErrorCode(err, ErrWitnessProgramWrongLength), "version 0 programs are 20 or 32 bytes")
	case ver == 1 && L == 32 && !vm.bip16:
		if taproot {
			vAssert(err != nil && IsErrorCode(err, ErrWitnessProgramEmpty), "taproot spend needs a witness")
		} else {
			vAssert(err == nil, "without the taproot flag a v1 program is not interpreted")
		}
	case anchor:
		// pay-to-anchor has its own branch; either outcome is a policy matter not decided here
	case discourage:
		vAssert(err != nil && IsErrorCode(err, ErrDiscourageUpgradableWitnessProgram), "upgradeable programs are refused by policy")
	default:
		// the program itself is the top stack item: an all-zero program evaluates to false like any script result
		if asBool(prog) {
			vAssert(err == nil, "upgradeable witness programs (including P2SH-nested v1) are anyone-can-spend under consensus rules")
		} else {
			vAssert(err != nil && IsErrorCode(err, ErrEvalFalse), "a false top stack item fails the script")
		}
	}
	vReach("end")
}
