//verif:module .
//verif:pkg blockchain
package blockchain

import (
	"time"

	"github.com/btcsuite/btcd/btcutil/v2"
	"github.com/btcsuite/btcd/chaincfg/v2"
	"github.com/btcsuite/btcd/chainhash/v2"
	"github.com/btcsuite/btcd/database"
	"github.com/btcsuite/btcd/wire/v2"
)

// the database is environment: it holds whatever consistency marker the crash left, serves blocks from a table and
// records what the recovery does
type vRecDB struct{ database.DB }

func (d *vRecDB) View(fn func(tx database.Tx) error) error   { return fn(nil) }
func (d *vRecDB) Update(fn func(tx database.Tx) error) error { return fn(nil) }

var vRec struct {
	marker     []byte
	putMarker  []chainhash.Hash
	blocks     map[*blockNode]*btcutil.Block
	connected  []*btcutil.Block
	flushedAt  []chainhash.Hash
	interruptK int // the interrupt request arrives after this many replayed blocks (-1: never)
}

func vStubFetchMarker(dbTx database.Tx) []byte { return vRec.marker }
func vStubPutMarker(dbTx database.Tx, hash *chainhash.Hash) error {
	vRec.putMarker = append(vRec.putMarker, *hash)
	return nil
}
func vStubRecFetchBlock(dbTx database.Tx, node *blockNode) (*btcutil.Block, error) {
	return vRec.blocks[node], nil
}
func vStubRecConnect(s *utxoCache, block *btcutil.Block, stxos *[]SpentTxOut) error {
	vRec.connected = append(vRec.connected, block)
	return nil
}
func vStubRecFlush(s *utxoCache, dbTx database.Tx, mode FlushMode, bestState *BestState) error {
	vRec.flushedAt = append(vRec.flushedAt, bestState.Hash)
	return nil
}
func vStubInterrupt(interrupted <-chan struct{}) bool {
	return vRec.interruptK >= 0 && len(vRec.connected) >= vRec.interruptK
}

// C04(1) - the recovery STEP, from every persisted state a crash can leave behind (not the crash points themselves:
// which states the ordering of durable commits can produce is outside the encoder): the chain state says the tip
// is T (chain of 2..4, thorough 6, blocks) and the UTXO consistency marker names a block F on that chain - or is
// absent, or names T.  InitConsistentState replays exactly the blocks after F up to T through the UTXO cache, in
// order, each once, offering a flush at each replayed block's state, and ends with the cache marked consistent at
// T; with no marker it writes one for T; with F == T it replays nothing.  An interrupt request during the replay
// stops it after the current block with errInterruptRequested and WITHOUT marking the cache consistent at T, so that
// a crash or shutdown during recovery leaves a state the next start recovers from again.
//verif:opts reach=nomarker,consistent,replayed,interrupted noverride=chainio.go:dbFetchUtxoStateConsistency:vStubFetchMarker;chainio.go:dbPutUtxoStateConsistency:vStubPutMarker;chainio.go:dbFetchBlockByNode:vStubRecFetchBlock;utxocache.go:utxoCache.connectTransactions:vStubRecConnect;utxocache.go:utxoCache.flush:vStubRecFlush;upgrade.go:interruptRequested:vStubInterrupt
func VH_init_consistent_state_replays_suffix() {
	params := &chaincfg.Params{}
	b := &BlockChain{chainParams: params, index: newBlockIndex(nil, params)}
	b.utxoCache = &utxoCache{db: &vRecDB{}}
	vRec.putMarker, vRec.connected, vRec.flushedAt = nil, nil, nil
	vRec.blocks = make(map[*blockNode]*btcutil.Block)
	n := 2 + vNondetLen("chainLen", 2+2*vTier())
	nodes := make([]*blockNode, n)
	var prev *blockNode
	for i := 0; i < n; i++ {
		h := &wire.BlockHeader{Version: 4, Bits: 0x207fffff, Nonce: uint32(i + 1), Timestamp: time.Unix(1600000000, 0)}
		if prev != nil {
			h.PrevBlock = prev.hash
		}
		nd := newBlockNode(h, prev)
		nd.status = statusDataStored | statusValid
		b.index.AddNode(nd)
		vRec.blocks[nd] = btcutil.NewBlock(&wire.MsgBlock{Header: *h})
		nodes[i], prev = nd, nd
	}
	tip := nodes[n-1]
	b.bestChain = newChainView(tip)
	f := vNondetLen("markerAt", n) // n: no marker recorded
	vRec.marker = nil
	if f < n {
		vRec.marker = append([]byte{}, nodes[f].hash[:]...)
	}
	vRec.interruptK = -1
	if vNondetBool("interrupted") {
		vRec.interruptK = 1 + vNondetLen("interruptAfter", n-1)
	}
	err := b.InitConsistentState(tip, nil)
	switch {
	case f == n:
		vAssert(err == nil && len(vRec.putMarker) == 1 && vRec.putMarker[0] == tip.hash, "without a marker one is written for the tip")
		vAssert(len(vRec.connected) == 0 && b.utxoCache.lastFlushHash == tip.hash, "nothing is replayed")
		vReach("nomarker")
	case f == n-1:
		vAssert(err == nil && len(vRec.connected) == 0 && len(vRec.putMarker) == 0, "a marker at the tip needs no replay")
		vAssert(b.utxoCache.lastFlushHash == tip.hash, "the cache is consistent at the tip")
		vReach("consistent")
	default:
		missing := n - 1 - f
		replayed := missing
		interrupted := vRec.interruptK >= 0 && vRec.interruptK <= missing
		if interrupted {
			replayed = vRec.interruptK
		}
		vAssert(len(vRec.connected) == replayed && len(vRec.flushedAt) == replayed, "exactly the missing blocks are replayed, each offered a flush")
		for i := 0; i < replayed; i++ {
			vAssert(vRec.connected[i] == vRec.blocks[nodes[f+1+i]], "in chain order, starting right after the marker")
			vAssert(vRec.flushedAt[i] == nodes[f+1+i].hash, "a flush during replay records the replayed block as the consistent point")
		}
		if interrupted {
			vAssert(err == errInterruptRequested, "an interrupt request stops the replay")
			vAssert(b.utxoCache.lastFlushHash != tip.hash, "and the cache is not declared consistent at the tip")
			vReach("interrupted")
		} else {
			vAssert(err == nil && b.utxoCache.lastFlushHash == tip.hash, "after the replay the cache is consistent at the tip")
			vReach("replayed")
		}
	}
}

// C04(2): pruning must not delete a block the recovery would need: a flush is demanded iff some deleted block is at
// or above the last flushed block's height (or the last flush point is unknown), for every chain of 4 blocks, every
// last-flush position and every set of deleted blocks (including hashes the index does not know).
//verif:opts reach=end
func VH_flush_needed_after_prune() {
	params := &chaincfg.Params{}
	b := &BlockChain{chainParams: params, index: newBlockIndex(nil, params)}
	b.utxoCache = &utxoCache{}
	n := 4
	nodes := make([]*blockNode, n)
	var prev *blockNode
	for i := 0; i < n; i++ {
		nd := &blockNode{parent: prev, height: int32(i)}
		nd.hash[0] = byte(i + 1)
		b.index.AddNode(nd)
		nodes[i], prev = nd, nd
	}
	f := vNondetLen("lastFlushAt", n) // n: unknown hash
	if f < n {
		b.utxoCache.lastFlushHash = nodes[f].hash
	} else {
		b.utxoCache.lastFlushHash[0] = 0xee
	}
	var deleted []chainhash.Hash
	highest := -1
	for i := 0; i < n; i++ {
		if vNondetBool("deleted") {
			deleted = append(deleted, nodes[i].hash)
			highest = i
		}
	}
	if vNondetBool("unknownDeleted") {
		var u chainhash.Hash
		u[0] = 0xdd
		deleted = append(deleted, u)
	}
	got, err := b.flushNeededAfterPrune(deleted)
	want := f == n || highest >= f
	vAssert(err == nil && got == want, "flush needed iff a deleted block is at or above the last flush height (or that point is unknown)")
	vReach("end")
}
