//verif:module .
//verif:pkg blockchain
package blockchain

import (
	"math/big"
	"time"

	"github.com/btcsuite/btcd/btcutil/v2"
	"github.com/btcsuite/btcd/chaincfg/v2"
	"github.com/btcsuite/btcd/chainhash/v2"
	"github.com/btcsuite/btcd/database"
	"github.com/btcsuite/btcd/wire/v2"
)

// the database transaction of a block connect: pruning deletes whatever the harness says, every write is recorded
type vConnTx struct {
	database.Tx
	deleted []chainhash.Hash
}

func (t *vConnTx) PruneBlocks(target uint64) ([]chainhash.Hash, error) {
	vConn.events = append(vConn.events, "prune")
	return t.deleted, nil
}

type vConnDB struct {
	database.DB
	deleted []chainhash.Hash
}

func (d *vConnDB) Update(fn func(tx database.Tx) error) error { return fn(&vConnTx{deleted: d.deleted}) }

var vConn struct {
	events  []string
	flushes []FlushMode
	markers []chainhash.Hash
	bestPut chainhash.Hash
}

func vStubConnIsCurrent(b *BlockChain) bool         { return false }
func vStubConnFlushIndex(bi *blockIndex) error      { return nil }
func vStubConnPruneJournal(dbTx database.Tx, blockHashes []chainhash.Hash) error {
	vConn.events = append(vConn.events, "pruneSpendJournal")
	return nil
}
func vStubConnFlush(s *utxoCache, dbTx database.Tx, mode FlushMode, bestState *BestState) error {
	vConn.events = append(vConn.events, "flushCache")
	vConn.flushes = append(vConn.flushes, mode)
	vConn.markers = append(vConn.markers, bestState.Hash)
	return nil
}
func vStubConnPutBest(dbTx database.Tx, snapshot *BestState, workSum *big.Int) error {
	vConn.events = append(vConn.events, "putBestState")
	vConn.bestPut = snapshot.Hash
	return nil
}
func vStubConnPutIndex(dbTx database.Tx, hash *chainhash.Hash, height int32) error {
	vConn.events = append(vConn.events, "putBlockIndex")
	return nil
}
func vStubConnPutJournal(dbTx database.Tx, blockHash *chainhash.Hash, stxos []SpentTxOut) error {
	vConn.events = append(vConn.events, "putSpendJournal")
	return nil
}

// C04(3): the durable writes of connecting a block, and the consistency marker they leave: best state, height index
// and spend journal are written in ONE database transaction; when pruning (enabled or not, deleting nothing, an old
// block, or a block at / above the cache's last flush point) forces a UTXO flush inside that transaction, the flush
// is unconditional and its marker is the block BEING connected - the cache already contains that block, so any other
// marker would make recovery replay it twice or skip it; the opportunistic flush after the transaction carries the
// same marker; chain view, snapshot and transaction total follow.
//verif:opts reach=pruneflush,noflush noverride=chain.go:BlockChain.isCurrent:vStubConnIsCurrent;blockindex.go:blockIndex.flushToDB:vStubConnFlushIndex;chainio.go:dbPruneSpendJournalEntry:vStubConnPruneJournal;utxocache.go:utxoCache.flush:vStubConnFlush;chainio.go:dbPutBestState:vStubConnPutBest;chainio.go:dbPutBlockIndex:vStubConnPutIndex;chainio.go:dbPutSpendJournalEntry:vStubConnPutJournal
func VH_connect_block_durable_writes() {
	params := &chaincfg.Params{}
	b := &BlockChain{chainParams: params, index: newBlockIndex(nil, params)}
	b.utxoCache = &utxoCache{}
	vConn.events, vConn.flushes, vConn.markers = nil, nil, nil
	mk := func(parent *blockNode, nonce uint32) (*blockNode, *wire.BlockHeader) {
		h := &wire.BlockHeader{Version: 4, Bits: 0x207fffff, Nonce: nonce, Timestamp: time.Unix(1600000000+int64(nonce), 0)}
		if parent != nil {
			h.PrevBlock = parent.hash
		}
		n := newBlockNode(h, parent)
		n.status = statusDataStored | statusValid
		b.index.AddNode(n)
		return n, h
	}
	g, _ := mk(nil, 1)
	mid, _ := mk(g, 2)
	tip, _ := mk(mid, 3)
	node, hdr := mk(tip, 4)
	b.bestChain = newChainView(tip)
	total := uint64(vNondetU32("totalTxns"))
	b.stateSnapshot = newBestState(tip, 0, 0, 0, total, time.Unix(0, 0))
	flushAt := []*blockNode{g, mid, tip}[vNondetLen("lastFlushAt", 2)]
	b.utxoCache.lastFlushHash = flushAt.hash
	pruning := vNondetBool("pruningEnabled")
	if pruning {
		b.pruneTarget = 1 << 30
	}
	db := &vConnDB{}
	var highestDeleted int32 = -1
	switch vNondetLen("deleted", 3) {
	case 1:
		db.deleted, highestDeleted = []chainhash.Hash{g.hash}, 0
	case 2:
		db.deleted, highestDeleted = []chainhash.Hash{g.hash, mid.hash}, 1
	case 3:
		db.deleted, highestDeleted = []chainhash.Hash{mid.hash, tip.hash}, 2
	}
	b.db = db
	msg := &wire.MsgBlock{Header: *hdr}
	msg.AddTransaction(wire.NewMsgTx(1))
	blk := btcutil.NewBlock(msg)
	b.chainLock.Lock()
	err := b.connectBlock(node, blk, nil)
	vAssert(err == nil, "connect succeeds")
	forced := pruning && highestDeleted >= flushAt.height
	// expected event sequence
	var want []string
	if pruning {
		want = append(want, "prune")
		if highestDeleted >= 0 {
			want = append(want, "pruneSpendJournal")
			if forced {
				want = append(want, "flushCache")
			}
		}
	}
	want = append(want, "putBestState", "putBlockIndex", "putSpendJournal", "flushCache")
	vAssert(len(vConn.events) == len(want), "exactly the expected durable steps")
	for i := range want {
		vAssert(vConn.events[i] == want[i], "in the documented order")
	}
	for _, m := range vConn.markers {
		vAssert(m == node.hash, "every flush of this connect names the block being connected as the consistent point")
	}
	if forced {
		vAssert(len(vConn.flushes) == 2 && vConn.flushes[0] == FlushRequired && vConn.flushes[1] == FlushIfNeeded, "the prune-forced flush is unconditional, the trailing one opportunistic")
		vReach("pruneflush")
	} else {
		vAssert(len(vConn.flushes) == 1 && vConn.flushes[0] == FlushIfNeeded, "without a prune-forced flush only the opportunistic flush runs")
		vReach("noflush")
	}
	vAssert(vConn.bestPut == node.hash, "the persisted best state names the new block")
	snap := b.BestSnapshot()
	vAssert(b.bestChain.Tip() == node && snap.Hash == node.hash && snap.TotalTxns == total+1, "chain view, snapshot and transaction total follow")
}
