//verif:module btcutil
//verif:pkg gcs
package gcs

// C20(3): a Golomb-coded set matches every element it was built from: BuildGCSFilter with 1..3 (thorough 4)
// elements, small symbolic Golomb parameter P and modulus factor M (so that the unary quotients stay short), an
// arbitrary key and arbitrary element bytes (SipHash uninterpreted): Match on each element is true, MatchAny /
// ZipMatchAny / HashMatchAny on a query containing an element are true, N and the serialised form round trip.
//verif:opts reach=end novalidate=1
func VH_gcs_no_false_negative() {
	n := 1 + vNondetLen("n", 1+vTier())
	P := uint8(1 + vNondetLen("P", 1))
	M := uint64(2 + vNondetLen("M", 1))
	var key [KeySize]byte
	copy(key[:], vNondetBytes("key", KeySize))
	var data [][]byte
	for i := 0; i < n; i++ {
		data = append(data, vNondetBytes("elem", 1))
	}
	f, err := BuildGCSFilter(P, M, key, data)
	vAssert(err == nil && f.N() == uint32(n) && f.P() == P, "filter built")
	for i := 0; i < n; i++ {
		ok, err := f.Match(key, data[i])
		vAssert(err == nil && ok, "every element the set was built from matches")
	}
	nb, err := f.NBytes()
	vAssert(err == nil, "serialises")
	g, err := FromNBytes(P, M, nb)
	vAssert(err == nil && g.N() == f.N(), "N-prefixed form round trips")
	ok4, _ := g.Match(key, data[0])
	vAssert(ok4, "the deserialised filter still matches")
	vReach("end")
}

// C20(3): batch matching agrees with element-wise matching when the query contains an element of the set
//verif:opts reach=end novalidate=1 tier=thorough
func VH_gcs_batch_matching() {
	var key [KeySize]byte
	copy(key[:], vNondetBytes("key", KeySize))
	data := [][]byte{vNondetBytes("elem", 1), vNondetBytes("elem", 1)}
	f, err := BuildGCSFilter(1, 2, key, data)
	vAssert(err == nil, "filter built")
	q := [][]byte{vNondetBytes("other", 1), data[vNondetLen("which", 1)]}
	ok1, e1 := f.ZipMatchAny(key, q)
	ok2, e2 := f.HashMatchAny(key, q)
	ok3, e3 := f.MatchAny(key, q)
	vAssert(e1 == nil && e2 == nil && e3 == nil && ok1 && ok2 && ok3, "batch matching finds an element of the set")
	vReach("end")
}

// C20(3): the empty set matches nothing and does not panic
//verif:opts reach=end novalidate=1
func VH_gcs_empty() {
	var key [KeySize]byte
	copy(key[:], vNondetBytes("key", KeySize))
	f, err := BuildGCSFilter(19, 784931, key, nil)
	vAssert(err == nil && f.N() == 0, "empty filter builds")
	ok, err := f.Match(key, vNondetBytes("x", 1))
	vAssert(err == nil && !ok, "the empty set matches nothing")
	vReach("end")
}

// C20(3'): the serialised forms carry N as a Bitcoin CompactSize and round trip at its size boundaries: filters of
// N = 1, 127, 128, 252, 253 and 300 elements (concrete 2-byte elements, so SipHash is evaluated exactly):
// NBytes == CompactSize(N) || filter bytes, FromNBytes(NBytes) reports the same N and matches every element.
//verif:opts reach=end max_steps=80000000
func VH_gcs_nbytes_roundtrip_at_size_boundaries() {
	N := []int{1, 127, 128, 252, 253, 300}[vNondetLen("n", 5)]
	var key [KeySize]byte
	for i := range key {
		key[i] = byte(i + 1)
	}
	data := make([][]byte, N)
	for i := range data {
		data[i] = []byte{byte(i), byte(i >> 8)}
	}
	f, err := BuildGCSFilter(19, 784931, key, data)
	vAssert(err == nil && int(f.N()) == N, "filter built")
	nb, err := f.NBytes()
	vAssert(err == nil, "serialises")
	raw, _ := f.Bytes()
	pre := 1
	if N >= 253 {
		pre = 3
		vAssert(nb[0] == 0xfd && int(nb[1])|int(nb[2])<<8 == N, "N >= 253 is written as 0xfd + 16-bit little endian")
	} else {
		vAssert(int(nb[0]) == N, "N < 253 is written as one byte")
	}
	vAssert(len(nb) == pre+len(raw), "NBytes == CompactSize(N) || filter bytes")
	g, err := FromNBytes(19, 784931, nb)
	vAssert(err == nil && int(g.N()) == N, "FromNBytes reads the same N back")
	for _, i := range []int{0, N / 2, N - 1} {
		ok, err := g.Match(key, data[i])
		vAssert(err == nil && ok, "the deserialised filter matches the elements it was built from")
	}
	vReach("end")
}

// C20(3''): multisets: a filter built from elements that contain a DUPLICATE (two equal hash values, i.e. a zero
// delta in the Golomb-coded stream - what also happens when two distinct elements collide) still matches every one
// of its elements, through all four query paths, whatever sorts after the duplicate: 5 concrete elements, any one of
// them repeated, any element queried alone or together with a non-member (SipHash evaluated exactly; P = 19,
// M = 784931 as in BIP158).
//verif:opts reach=end max_steps=40000000
func VH_gcs_duplicate_elements_still_match() {
	var key [KeySize]byte
	for i := range key {
		key[i] = byte(3*i + 1)
	}
	data := [][]byte{{0x51}, {0x00, 0x14, 0x01}, {0x76, 0xa9}, {0xa9, 0x14, 0x02, 0x03}, {0x6a}}
	dup := vNondetLen("dup", len(data)-1)
	all := append(append([][]byte{}, data...), data[dup])
	f, err := BuildGCSFilter(19, 784931, key, all)
	vAssert(err == nil && f.N() == uint32(len(all)), "filter built; N counts the duplicate")
	e := data[vNondetLen("query", len(data)-1)]
	other := []byte{0xde, 0xad}
	ok, err := f.Match(key, e)
	vAssert(err == nil && ok, "Match finds every element of the multiset")
	q := [][]byte{e}
	if vNondetBool("withOther") {
		q = [][]byte{other, e}
	}
	ok1, e1 := f.ZipMatchAny(key, q)
	ok2, e2 := f.HashMatchAny(key, q)
	ok3, e3 := f.MatchAny(key, q)
	vAssert(e1 == nil && ok1, "ZipMatchAny finds it")
	vAssert(e2 == nil && ok2, "HashMatchAny finds it")
	vAssert(e3 == nil && ok3, "MatchAny finds it")
	vReach("end")
}
