//verif:module btcutil
//verif:pkg gcs/builder
package builder

import (
	"github.com/btcsuite/btcd/chainhash/v2"
	"github.com/btcsuite/btcd/wire/v2"
)

// output / previous-output script shapes a block can carry
func vFilterScript(kind int, slot byte) (script []byte, excluded bool) {
	switch kind {
	case 0:
		return nil, true // empty scripts are not filter elements
	case 1:
		return []byte{0x6a}, true // OP_RETURN outputs are not filter elements
	case 2:
		return []byte{0x6a, 0x02, slot, 0x01}, true
	case 3:
		return []byte{0x51, slot}, false // anyone-can-spend style
	case 4:
		return []byte{0x51, 0x05, 0xaa, slot}, false // does not parse (truncated push): still an element
	case 5:
		return []byte{0x4c}, false // lone OP_PUSHDATA1: does not parse, still an element
	default:
		return []byte{0x76, 0xa9, 0x14, slot, 2, 3, 4, 5, 6, 7, 8, 9, 10, 11, 12, 13, 14, 15, 16, 17, 18, 19, 20, 0x88, 0xac}, false
	}
}

// C20(5): BIP158 basic filter never misses: for a block whose transaction has two outputs and one spent previous
// output, each of an arbitrary shape (empty, OP_RETURN, parseable, unparseable), the filter matches every output
// script that is non-empty and does not start with OP_RETURN and every non-empty previous-output script - whether
// or not the script parses.  (All script bytes are concrete per shape, so SipHash is evaluated exactly.)
//verif:opts reach=end
func VH_basic_filter_no_false_negative() {
	blk := &wire.MsgBlock{Header: wire.BlockHeader{Nonce: 7}}
	tx := wire.NewMsgTx(2)
	tx.AddTxIn(&wire.TxIn{})
	var want [][]byte
	for slot := 0; slot < 2; slot++ {
		s, excluded := vFilterScript(vNondetLen("outKind", 6), byte(slot))
		tx.AddTxOut(&wire.TxOut{Value: 1, PkScript: s})
		if !excluded {
			want = append(want, s)
		}
	}
	blk.AddTransaction(tx)
	prev, _ := vFilterScript(vNondetLen("prevKind", 6), 9)
	if len(prev) > 0 {
		want = append(want, prev) // previous-output scripts are elements even when they start with OP_RETURN
	}
	f, err := BuildBasicFilter(blk, [][]byte{prev})
	vAssert(err == nil && f != nil, "filter builds")
	vAssert(int(f.N()) <= len(want), "no element beyond the specified ones")
	h := blk.BlockHash()
	key := DeriveKey(&h)
	for _, s := range want {
		ok, err := f.Match(key, s)
		vAssert(err == nil && ok, "every script BIP158 makes an element of the block's filter matches")
	}
	vReach("end")
}

// C20(5'): filter hash and filter header chain: the filter hash is the double-SHA256 of the N-prefixed serialisation,
// and header(i) = double-SHA256(filterHash(i) || header(i-1)) - filter hash first - for filters of 0..2 concrete
// elements and an arbitrary previous header.
//verif:opts reach=end
func VH_filter_header_chain() {
	var key [16]byte
	for i := range key {
		key[i] = byte(i + 3)
	}
	n := vNondetLen("elements", 2)
	var data [][]byte
	for i := 0; i < n; i++ {
		data = append(data, []byte{0x51, byte(i)})
	}
	b := WithKey(key)
	b.AddEntries(data)
	f, err := b.Build()
	vAssert(err == nil, "filter builds")
	nb, err := f.NBytes()
	vAssert(err == nil, "serialises")
	fh, err := GetFilterHash(f)
	vAssert(err == nil && fh == chainhash.DoubleHashH(nb), "filter hash == H(H(N || filter bytes))")
	var prev chainhash.Hash
	copy(prev[:], vNondetBytes("prevHeader", 32))
	hdr, err := MakeHeaderForFilter(f, prev)
	want := chainhash.DoubleHashH(append(append([]byte{}, fh[:]...), prev[:]...))
	vAssert(err == nil && hdr == want, "filter header == H(H(filterHash || previous header))")
	vReach("end")
}
