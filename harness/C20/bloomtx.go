//verif:module btcutil
//verif:pkg bloom
package bloom

import (
	"github.com/btcsuite/btcd/btcutil/v2"
	"github.com/btcsuite/btcd/wire/v2"
)

// C20(6): BIP37 transaction matching with filter update: a 512-bit filter that starts empty receives an arbitrary
// subset of {txid, the hash pushed by output 0 (P2PKH), the key pushed by output 1 (P2PK), the outpoint spent by the
// input, the data pushed by the signature script}; then MatchTxAndUpdate matches iff something was inserted, and
// for every output whose script pushes an inserted element the output's outpoint is inserted as BIP37 says
// (always under UPDATE_ALL, only for pay-to-pubkey / multisig under UPDATE_P2PUBKEY_ONLY, never under UPDATE_NONE) -
// also when the transaction matched by its txid already - so that a later spend of that output matches too.
//verif:opts reach=match,nomatch
func VH_bloom_tx_match_and_update() {
	flags := []wire.BloomUpdateType{wire.BloomUpdateNone, wire.BloomUpdateAll, wire.BloomUpdateP2PubkeyOnly}[vNondetLen("flags", 2)]
	bf := LoadFilter(&wire.MsgFilterLoad{Filter: make([]byte, 64), HashFuncs: 3, Tweak: 11, Flags: flags})
	hash160 := make([]byte, 20)
	pubkey := make([]byte, 33)
	pubkey[0] = 2
	for i := range hash160 {
		hash160[i] = byte(0x40 + i)
	}
	for i := 1; i < 33; i++ {
		pubkey[i] = byte(0x90 + i)
	}
	sigData := []byte{0xde, 0xad, 0xbe, 0xef, 0x01}
	m := wire.NewMsgTx(1)
	var prev wire.OutPoint
	prev.Hash[0], prev.Index = 0x77, 3
	m.AddTxIn(&wire.TxIn{PreviousOutPoint: prev, SignatureScript: append([]byte{byte(len(sigData))}, sigData...)})
	p2pkh := append(append([]byte{0x76, 0xa9, 0x14}, hash160...), 0x88, 0xac)
	p2pk := append(append([]byte{0x21}, pubkey...), 0xac)
	m.AddTxOut(&wire.TxOut{Value: 1, PkScript: p2pkh})
	m.AddTxOut(&wire.TxOut{Value: 2, PkScript: p2pk})
	tx := btcutil.NewTx(m)
	insTxid, insHash, insKey := vNondetBool("txid"), vNondetBool("hash160"), vNondetBool("pubkey")
	insPrev, insSig := vNondetBool("prevOutpoint"), vNondetBool("sigData")
	if insTxid {
		bf.AddHash(tx.Hash())
	}
	if insHash {
		bf.Add(hash160)
	}
	if insKey {
		bf.Add(pubkey)
	}
	if insPrev {
		bf.AddOutPoint(&prev)
	}
	if insSig {
		bf.Add(sigData)
	}
	got := bf.MatchTxAndUpdate(tx)
	any := insTxid || insHash || insKey || insPrev || insSig
	out0 := wire.NewOutPoint(tx.Hash(), 0)
	out1 := wire.NewOutPoint(tx.Hash(), 1)
	if !any {
		vAssert(!got, "an empty filter matches nothing")
		vAssert(!bf.MatchesOutPoint(out0) && !bf.MatchesOutPoint(out1), "and is not updated")
		vReach("nomatch")
		return
	}
	vAssert(got, "a transaction carrying an inserted element matches")
	if insHash && flags == wire.BloomUpdateAll {
		vAssert(bf.MatchesOutPoint(out0), "UPDATE_ALL: the outpoint of a matching output is inserted")
	}
	if insKey && flags != wire.BloomUpdateNone {
		vAssert(bf.MatchesOutPoint(out1), "UPDATE_ALL / P2PUBKEY_ONLY: the outpoint of a matching pay-to-pubkey output is inserted")
	}
	// a later transaction spending the matched output is then matched through that outpoint alone
	if insKey && flags != wire.BloomUpdateNone {
		sp := wire.NewMsgTx(1)
		sp.AddTxIn(&wire.TxIn{PreviousOutPoint: *out1, SignatureScript: []byte{0x01, 0x55}})
		sp.AddTxOut(&wire.TxOut{Value: 1, PkScript: []byte{0x51}})
		vAssert(bf.MatchTxAndUpdate(btcutil.NewTx(sp)), "the spend of an auto-inserted outpoint matches")
	}
	vReach("match")
}

// C20(4'): outpoints: after AddOutPoint(o) the filter matches o, for every output index (all 2^32) - insertion and
// query serialise the outpoint identically (txid || little-endian index) - on filters of 2 bytes with arbitrary
// initial bits, 1..2 hash functions and an arbitrary tweak.
//verif:opts reach=end
func VH_bloom_outpoint_no_false_negative() {
	filter := vNondetBytes("filter", 2)
	bf := LoadFilter(&wire.MsgFilterLoad{Filter: filter, HashFuncs: uint32(1 + vNondetLen("hashFuncs", 1)), Tweak: vNondetU32("tweak")})
	var op wire.OutPoint
	for i := range op.Hash {
		op.Hash[i] = byte(7*i + 1)
	}
	op.Index = vNondetU32("index")
	bf.AddOutPoint(&op)
	vAssert(bf.MatchesOutPoint(&op), "an inserted outpoint matches, whatever its index")
	// and it is the BIP37 serialisation: inserting the bytes txid || LE32(index) directly has the same effect
	raw := append(append([]byte{}, op.Hash[:]...), byte(op.Index), byte(op.Index>>8), byte(op.Index>>16), byte(op.Index>>24))
	bf2 := LoadFilter(&wire.MsgFilterLoad{Filter: make([]byte, 2), HashFuncs: 1, Tweak: 5})
	bf2.Add(raw)
	vAssert(bf2.MatchesOutPoint(&op), "the outpoint's filter element is txid || little-endian index")
	vReach("end")
}
