//verif:module btcutil
//verif:pkg bloom
package bloom

import (
	"github.com/btcsuite/btcd/btcutil/v2"
	"github.com/btcsuite/btcd/chainhash/v2"
	"github.com/btcsuite/btcd/wire/v2"
)

// ---- BIP37 partial merkle tree extraction (CPartialMerkleTree::TraverseAndExtract), written from the BIP
type vExtract struct {
	numTx     uint32
	bits      []byte
	hashes    []*chainhash.Hash
	bitsUsed  int
	hashUsed  int
	bad       bool
	matchIdx  []uint32
	matchHash []chainhash.Hash
}

func (x *vExtract) width(height uint32) uint32 { return (x.numTx + (1 << height) - 1) >> height }

func (x *vExtract) walk(height, pos uint32) chainhash.Hash {
	if x.bitsUsed >= len(x.bits) {
		x.bad = true
		return chainhash.Hash{}
	}
	parent := x.bits[x.bitsUsed] != 0
	x.bitsUsed++
	if height == 0 || !parent {
		if x.hashUsed >= len(x.hashes) {
			x.bad = true
			return chainhash.Hash{}
		}
		h := *x.hashes[x.hashUsed]
		x.hashUsed++
		if height == 0 && parent {
			x.matchIdx = append(x.matchIdx, pos)
			x.matchHash = append(x.matchHash, h)
		}
		return h
	}
	left := x.walk(height-1, pos*2)
	right := left
	if pos*2+1 < x.width(height-1) {
		right = x.walk(height-1, pos*2+1)
	}
	var buf []byte
	buf = append(buf, left[:]...)
	buf = append(buf, right[:]...)
	return chainhash.DoubleHashH(buf)
}

func specRoot(level []chainhash.Hash) chainhash.Hash {
	for len(level) > 1 {
		if len(level)%2 == 1 {
			level = append(level, level[len(level)-1])
		}
		var next []chainhash.Hash
		for i := 0; i < len(level); i += 2 {
			var buf []byte
			buf = append(buf, level[i][:]...)
			buf = append(buf, level[i+1][:]...)
			next = append(next, chainhash.DoubleHashH(buf))
		}
		level = next
	}
	return level[0]
}

// C20(5): the partial merkle tree built for any subset of matched transactions of a block of 1..5 (thorough 7)
// transactions, when re-walked with the BIP37 extraction algorithm, yields exactly the matched transaction ids
// in order and the block's merkle root, consuming every flag bit and hash.
//verif:opts reach=end
func VH_partial_merkle_tree() {
	n := 1 + vNondetLen("n", 4+2*vTier())
	m := merkleBlock{numTx: uint32(n)}
	leaves := make([]chainhash.Hash, n)
	for i := 0; i < n; i++ {
		copy(leaves[i][:], vNondetBytes("txid", 32))
		h := leaves[i]
		m.allHashes = append(m.allHashes, &h)
		if vNondetBool("matched") {
			m.matchedBits = append(m.matchedBits, 1)
		} else {
			m.matchedBits = append(m.matchedBits, 0)
		}
	}
	height := uint32(0)
	for m.calcTreeWidth(height) > 1 {
		height++
	}
	m.traverseAndBuild(height, 0)
	x := &vExtract{numTx: uint32(n), bits: m.bits, hashes: m.finalHashes}
	root := x.walk(height, 0)
	vAssert(!x.bad, "the proof contains every bit and hash the verifier needs")
	vAssert(x.bitsUsed == len(m.bits) && x.hashUsed == len(m.finalHashes), "no unused flag bits or hashes")
	vAssert(root == specRoot(leaves), "the proof recomputes the block's merkle root")
	k := 0
	for i := 0; i < n; i++ {
		if m.matchedBits[i] != 0 {
			vAssert(k < len(x.matchIdx) && x.matchIdx[k] == uint32(i) && x.matchHash[k] == leaves[i], "matched transactions are proven in order")
			k++
		}
	}
	vAssert(k == len(x.matchIdx), "nothing but the matched transactions is proven")
	vReach("end")
}

var vMatchPlan struct {
	plan []bool
	pos  int
}

func vStubMatchTx(bf *Filter, tx *btcutil.Tx) bool {
	r := vMatchPlan.plan[vMatchPlan.pos]
	vMatchPlan.pos++
	return r
}

// C20(5b): the merkleblock MESSAGE built by NewMerkleBlock (flag bits packed into bytes, hashes copied) for a block of
// 1..7 (thorough 9) transactions and any subset matched by the filter (the filter's per-transaction verdict is the
// environment here): a BIP37 verifier that unpacks the flag bytes proves exactly the matched transactions, in
// order, and recomputes the merkle root; it consumes every hash; the flag bytes are the minimal number for the bits
// used (BIP37 verifiers reject a proof with unused flag bytes) and all padding bits are zero; the returned index list
// is the matched set.
//verif:opts reach=end,bytealigned noverride=filter.go:Filter.MatchTxAndUpdate:vStubMatchTx
func VH_merkle_block_message_flag_bytes() {
	n := 1 + vNondetLen("n", 6+2*vTier())
	blk := &wire.MsgBlock{}
	vMatchPlan.plan, vMatchPlan.pos = nil, 0
	for i := 0; i < n; i++ {
		tx := wire.NewMsgTx(int32(i + 1))
		blk.AddTransaction(tx)
		vMatchPlan.plan = append(vMatchPlan.plan, vNondetBool("matched"))
	}
	block := btcutil.NewBlock(blk)
	leaves := make([]chainhash.Hash, n)
	for i, tx := range block.Transactions() {
		leaves[i] = *tx.Hash()
	}
	mb, idx := NewMerkleBlock(block, nil)
	vAssert(mb.Transactions == uint32(n), "transaction count recorded")
	var bits []byte
	for i := 0; i < len(mb.Flags)*8; i++ {
		bits = append(bits, (mb.Flags[i/8]>>(uint(i)%8))&1)
	}
	x := &vExtract{numTx: uint32(n), bits: bits, hashes: mb.Hashes}
	height := uint32(0)
	for x.width(height) > 1 {
		height++
	}
	root := x.walk(height, 0)
	vAssert(!x.bad, "the message contains every bit and hash the verifier needs")
	vAssert(x.hashUsed == len(mb.Hashes), "no unused hashes")
	vAssert((x.bitsUsed+7)/8 == len(mb.Flags), "no unused flag bytes (BIP37 verifiers reject them)")
	for i := x.bitsUsed; i < len(bits); i++ {
		vAssert(bits[i] == 0, "padding bits are zero")
	}
	vAssert(root == specRoot(leaves), "the proof recomputes the block's merkle root")
	k := 0
	for i := 0; i < n; i++ {
		if vMatchPlan.plan[i] {
			vAssert(k < len(x.matchIdx) && x.matchIdx[k] == uint32(i) && x.matchHash[k] == leaves[i], "matched transactions are proven in order")
			vAssert(k < len(idx) && idx[k] == uint32(i), "and returned as matched indices")
			k++
		}
	}
	vAssert(k == len(x.matchIdx) && k == len(idx), "nothing but the matched transactions is proven")
	if x.bitsUsed%8 == 0 {
		vReach("bytealigned")
	}
	vReach("end")
}
