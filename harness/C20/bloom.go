//verif:module btcutil
//verif:pkg bloom
package bloom

import "github.com/btcsuite/btcd/wire/v2"

// reference MurmurHash3 (x86_32) transcribed from the algorithm description, byte-wise
func specRotl(x uint32, r uint) uint32 { return x<<r | x>>(32-r) }

func specMurmur(seed uint32, data []byte) uint32 {
	// constants and control structure are written independently of the implementation; the word assembly
	// uses the same shift/or form so that equal computations are syntactically equal (a multiplier
	// equivalence proof between different word encodings is out of reach of bit-blasting)
	const c1, c2 = 3432918353, 461845907
	h := seed
	n := len(data)
	for i := 0; i+4 <= n; i += 4 {
		k := uint32(data[i]) | uint32(data[i+1])<<8 | uint32(data[i+2])<<16 | uint32(data[i+3])<<24
		k *= c1
		k = specRotl(k, 15)
		k *= c2
		h ^= k
		h = specRotl(h, 13)
		h = h*5 + 3864292196
	}
	tail := n - n%4
	var k uint32
	for j := n%4 - 1; j >= 0; j-- {
		k ^= uint32(data[tail+j]) << (8 * uint(j))
	}
	if n%4 != 0 {
		k *= c1
		k = specRotl(k, 15)
		k *= c2
		h ^= k
	}
	h ^= uint32(n)
	h ^= h >> 16
	h *= 2246822507
	h ^= h >> 13
	h *= 3266489909
	h ^= h >> 16
	return h
}

// C20(4): MurmurHash3 == reference for every input of length 0..7 and every seed
//verif:opts reach=end
func VH_murmur_spec() {
	n := vNondetLen("len", 7)
	data := vNondetBytes("data", n)
	seed := vNondetU32("seed")
	got := MurmurHash3(seed, data)
	vAssert(got == specMurmur(seed, data), "MurmurHash3 == reference transcription")
	vObserve("h", uint64(got))
	vReach("end")
}

// C20(4): no false negatives: after Add(x), Matches(x), for filters of 1..3 (thorough 4) bytes with arbitrary
// initial bits, arbitrary hash-function count 0..2 (thorough 3), tweak and data; never panics (index in range).
//verif:opts reach=end
func VH_bloom_no_false_negative() {
	fl := 1 + vNondetLen("flen", 2+vTier())
	filter := vNondetBytes("filter", fl)
	msg := &wire.MsgFilterLoad{Filter: filter, HashFuncs: uint32(vNondetLen("hashFuncs", 2+vTier())), Tweak: vNondetU32("tweak")}
	bf := LoadFilter(msg)
	data := vNondetBytes("data", vNondetLen("dlen", 3+2*vTier()))
	bf.Add(data)
	vAssert(bf.Matches(data), "a non-empty filter matches everything inserted into it")
	vReach("end")
}

// C20(4): bits are only ever set: inserting another element never removes an existing match
//verif:opts reach=end
func VH_bloom_monotone() {
	fl := 1 + vNondetLen("flen", 1)
	filter := vNondetBytes("filter", fl)
	hf := uint32(vNondetLen("hashFuncs", 2))
	tweak := vNondetU32("tweak")
	other := vNondetBytes("other", 2)
	m0 := LoadFilter(&wire.MsgFilterLoad{Filter: append([]byte{}, filter...), HashFuncs: hf, Tweak: tweak}).Matches(other)
	bf := LoadFilter(&wire.MsgFilterLoad{Filter: filter, HashFuncs: hf, Tweak: tweak})
	bf.Add(vNondetBytes("more", 1))
	vAssert(!m0 || bf.Matches(other), "inserting more elements never removes a match")
	vReach("end")
}

// C20(4): an empty or unloaded filter never panics (no modulo by zero)
//verif:opts reach=end
func VH_bloom_empty_no_panic() {
	msg := &wire.MsgFilterLoad{Filter: nil, HashFuncs: uint32(vNondetLen("hashFuncs", 3)), Tweak: vNondetU32("tweak")}
	bf := LoadFilter(msg)
	data := vNondetBytes("data", 3)
	bf.Add(data)
	_ = bf.Matches(data)
	bf.Unload()
	bf.Add(data)
	vAssert(!bf.Matches(data), "an unloaded filter matches nothing")
	vReach("end")
}
