//verif:module btcutil
//verif:pkg gcs
package gcs

import "math/big"

// C20(1): fastReduction(v, nHi, nLo) == floor(v * n / 2^64) and is < n  (integer-theory backend)
//verif:opts reach=end intmode=1
func VH_fast_reduction() {
	v := vNondetU64("v")
	n := vNondetU64("n")
	got := fastReduction(v, n>>32, uint64(uint32(n)))
	p := new(big.Int).Mul(new(big.Int).SetUint64(v), new(big.Int).SetUint64(n))
	hi := new(big.Int).Rsh(p, 64)
	vAssert(hi.IsUint64() && got == hi.Uint64(), "fastReduction == floor(v*n / 2^64)")
	vAssert(n == 0 || got < n, "result is below n")
	vReach("end")
}
